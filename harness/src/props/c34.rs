//! C34 C API results match the Rust API.
//!
//! The same generated statements and parameters run on two databases built by the same
//! setup statement: one through `ndb_query` / `ndb_execute_write` (crate `capi`), one
//! through `prepare` + `execute_streaming` / `execute_mixed`. Rust rows are converted to
//! the JSON document shape of the C ABI by this module's own converter (`to_doc`), written
//! from docs/abi/c-api-v1.md, docs/cli.md (a row is an object column -> value), the header
//! and the fields the bindings read (`type`/`id`/`labels`/`properties`,
//! `src`/`dst`/`rel_type`, `nodes`/`relationships`) - not by calling capi code.
//! Accept/refuse is decided from the generator's own statement structure.
use crate::capi_util_misc::{self as cu, CDb, CErr};
use crate::cy::pv_to_value;
use crate::engine::{CaseResult, Failure, Obs, RunCtx, catch, fp, temp_dir};
use crate::hist::open_db;
use crate::pv::PV;
use nervusdb::Db;
use nervusdb::query::{Params, Value, prepare};
use proptest::prelude::*;
use serde::{Deserialize, Serialize};
use serde_json::{Map as JMap, Value as J, json};

pub const LABELS: [&str; 3] = ["A", "B", "C"];
pub const TYPES: [&str; 2] = ["R", "S"];

/// An update clause (printed inside top-level statements, FOREACH bodies and subqueries).
#[derive(Debug, Clone, Serialize, Deserialize)]
pub enum Upd {
    /// CREATE (:L {p: v})
    Create { l: u8, v: PV },
    /// MERGE (:L {p: v})
    Merge { l: u8, v: PV },
    /// SET n.q = v          (needs a bound n)
    SetProp { v: PV },
    /// SET n:L
    SetLabel { l: u8 },
    /// REMOVE n.q
    RemoveProp,
    /// REMOVE n:L
    RemoveLabel { l: u8 },
    /// DETACH DELETE n
    DetachDelete,
}

impl Upd {
    fn needs_n(&self) -> bool {
        !matches!(self, Upd::Create { .. } | Upd::Merge { .. })
    }
    fn text(&self, lit: &dyn Fn(&PV) -> String) -> String {
        match self {
            Upd::Create { l, v } => format!("CREATE (:{} {{p: {}}})", lab(*l), lit(v)),
            Upd::Merge { l, v } => format!("MERGE (:{} {{p: {}}})", lab(*l), lit(v)),
            Upd::SetProp { v } => format!("SET n.q = {}", lit(v)),
            Upd::SetLabel { l } => format!("SET n:{}", lab(*l)),
            Upd::RemoveProp => "REMOVE n.q".to_string(),
            Upd::RemoveLabel { l } => format!("REMOVE n:{}", lab(*l)),
            Upd::DetachDelete => "DETACH DELETE n".to_string(),
        }
    }
}

fn lab(l: u8) -> &'static str {
    LABELS[l as usize % LABELS.len()]
}
fn ty(t: u8) -> &'static str {
    TYPES[t as usize % TYPES.len()]
}

#[derive(Debug, Clone, Serialize, Deserialize)]
pub enum Stmt {
    // ---------------- reads
    /// MATCH (n:L) RETURN n ORDER BY id(n)
    RNodes { l: u8 },
    /// MATCH (a)-[r:T]->(b) RETURN r, id(a) AS a, b.p AS bp ORDER BY id(a), id(b)
    RRels { t: u8 },
    /// MATCH p = (a:L)-[*1..k]->(b) RETURN p
    RPaths { l: u8, k: u8 },
    /// MATCH (n) RETURN id(n) AS id, labels(n) AS ls, properties(n) AS m, n.p AS p ORDER BY id
    RProps,
    /// RETURN $v AS v, [$v, 1.5] AS l, {k: $v} AS m
    REcho { v: PV },
    /// RETURN <literal> AS v
    RLit { v: PV },
    /// RETURN a <op> b AS v      (floats; division by zero and type errors at run time)
    RArith { a: PV, b: PV, op: u8 },
    /// MATCH (n) RETURN count(*) AS c, avg(n.p) AS a, sum(n.p) AS s, collect(n.p) AS ps
    RAgg,
    /// UNWIND $l AS x RETURN x, x IS NULL AS isnull
    RUnwind { l: Vec<PV> },
    /// CALL { MATCH (n:L) RETURN n } RETURN n.p AS p, n
    RSubquery { l: u8 },
    /// MATCH (n:A) RETURN n.p AS v UNION [ALL] MATCH (n:B) RETURN n.p AS v
    RUnion { all: bool },
    /// MATCH (n:L) RETURN {id: id(n), node: n, ls: labels(n)} AS m
    RMapOfNode { l: u8 },
    /// MATCH (a)-[r]->(b) RETURN [a, b] AS ns, [r] AS rs, type(r) AS t, nodes(p)...
    RListOfEntities,
    /// MATCH (n:L) WHERE n.p = $v RETURN n
    RParamFilter { l: u8, v: PV },
    /// statements that fail: 0 syntax, 1 undefined variable, 2 missing parameter, 3 unknown function,
    /// 4 type error at run time, 5 aggregate in WHERE
    RBad { kind: u8 },
    // ---------------- writes (update clause at top level)
    /// CREATE (n:L1:L2 {p: v, f: 1.5})
    WCreate { ls: Vec<u8>, v: PV },
    /// MATCH (a:L1), (b:L2) CREATE (a)-[:T {w: v}]->(b)
    WCreateRel { l1: u8, l2: u8, t: u8, v: PV },
    /// MATCH (n:L) <update>
    WMatchUpd { l: u8, u: Upd },
    /// MATCH (n:L) DELETE n           (fails at run time when n still has relationships)
    WDelete { l: u8 },
    /// MERGE (n:L {p: v}) ON CREATE SET n.q = 1 ON MATCH SET n.q = 2
    WMerge { l: u8, v: PV },
    /// CREATE (n:L {p: v}) RETURN n
    WCreateReturn { l: u8, v: PV },
    /// MATCH (n:L) SET n += $m
    WSetMap { l: u8, m: Vec<(u8, PV)> },
    // ---------------- nested updates
    /// [MATCH (n:L)] FOREACH (x IN [1, 2] | <update>)
    NForeach { l: u8, u: Upd },
    /// [MATCH (n:L)] CALL { [WITH n] <update> } [RETURN ...]
    NCall { l: u8, u: Upd, ret: bool },
    /// CALL { FOREACH (x IN [1] | CREATE (:L {p: x})) }
    NCallForeach { l: u8 },
    /// CALL { CALL { CREATE (:L {p: v}) } }
    NCallCall { l: u8, v: PV },
    /// write in the first or the second UNION branch
    NUnion { second: bool, all: bool, l: u8 },
    /// MATCH (n:L) WITH n.p AS v CALL { WITH v CREATE (:B {p: v}) } RETURN v
    NReadCallWrite { l: u8 },
    /// UNWIND [1, 2] AS x FOREACH (y IN [x] | FOREACH (z IN [y] | CREATE (:L {p: z})))
    NForeachForeach { l: u8 },
}

pub struct Rendered {
    pub text: String,
    pub params: Vec<(String, PV)>,
    pub is_write: bool,
    pub nested_update: bool,
    pub ordered: bool,
}

fn literal(v: &PV) -> String {
    crate::cy::literal(v).unwrap_or_else(|| "null".to_string())
}

impl Stmt {
    pub fn render(&self) -> Rendered {
        let lit = |v: &PV| literal(v);
        let mut params: Vec<(String, PV)> = Vec::new();
        let (text, is_write, nested, ordered): (String, bool, bool, bool) = match self {
            Stmt::RNodes { l } => (format!("MATCH (n:{}) RETURN n ORDER BY id(n)", lab(*l)), false, false, true),
            Stmt::RRels { t } => (format!("MATCH (a)-[r:{}]->(b) RETURN r, id(a) AS a, b.p AS bp ORDER BY id(a), id(b)", ty(*t)), false, false, false),
            Stmt::RPaths { l, k } => (format!("MATCH p = (a:{})-[*1..{}]->(b) RETURN p", lab(*l), (*k).clamp(1, 3)), false, false, false),
            Stmt::RProps => ("MATCH (n) RETURN id(n) AS id, labels(n) AS ls, properties(n) AS m, n.p AS p ORDER BY id".to_string(), false, false, true),
            Stmt::REcho { v } => {
                params.push(("v".into(), v.clone()));
                ("RETURN $v AS v, [$v, 1.5] AS l, {k: $v} AS m".to_string(), false, false, false)
            }
            Stmt::RLit { v } => (format!("RETURN {} AS v", lit(v)), false, false, false),
            Stmt::RArith { a, b, op } => {
                let o = ["+", "-", "*", "/", "%", "^"][*op as usize % 6];
                (format!("RETURN {} {o} {} AS v", lit(a), lit(b)), false, false, false)
            }
            Stmt::RAgg => ("MATCH (n) RETURN count(*) AS c, avg(n.p) AS a, sum(n.p) AS s, collect(n.p) AS ps".to_string(), false, false, false),
            Stmt::RUnwind { l } => {
                params.push(("l".into(), PV::List(l.clone())));
                ("UNWIND $l AS x RETURN x, x IS NULL AS isnull".to_string(), false, false, true)
            }
            Stmt::RSubquery { l } => (format!("CALL {{ MATCH (n:{}) RETURN n }} RETURN n.p AS p, n", lab(*l)), false, false, false),
            Stmt::RUnion { all } => (format!("MATCH (n:A) RETURN n.p AS v UNION{} MATCH (n:B) RETURN n.p AS v", if *all { " ALL" } else { "" }), false, false, false),
            Stmt::RMapOfNode { l } => (format!("MATCH (n:{}) RETURN {{id: id(n), node: n, ls: labels(n)}} AS m", lab(*l)), false, false, false),
            Stmt::RListOfEntities => ("MATCH (a)-[r]->(b) RETURN [a, b] AS ns, [r] AS rs, type(r) AS t".to_string(), false, false, false),
            Stmt::RParamFilter { l, v } => {
                params.push(("v".into(), v.clone()));
                (format!("MATCH (n:{}) WHERE n.p = $v RETURN n", lab(*l)), false, false, false)
            }
            Stmt::RBad { kind } => (
                match kind % 6 {
                    0 => "MATCH (n RETURN n",
                    1 => "MATCH (n) RETURN m",
                    2 => "RETURN $nope AS v",
                    3 => "RETURN noSuchFunction(1) AS v",
                    4 => "RETURN toInteger([1]) + 1 AS v",
                    _ => "MATCH (n) WHERE count(n) > 1 RETURN n",
                }
                .to_string(),
                false,
                false,
                false,
            ),
            Stmt::WCreate { ls, v } => {
                let labels: String = ls.iter().map(|l| format!(":{}", lab(*l))).collect();
                (format!("CREATE (n{labels} {{p: {}, f: 1.5}})", lit(v)), true, false, false)
            }
            Stmt::WCreateRel { l1, l2, t, v } => (format!("MATCH (a:{}), (b:{}) CREATE (a)-[:{} {{w: {}}}]->(b)", lab(*l1), lab(*l2), ty(*t), lit(v)), true, false, false),
            Stmt::WMatchUpd { l, u } => {
                let prefix = if u.needs_n() { format!("MATCH (n:{}) ", lab(*l)) } else { String::new() };
                (format!("{prefix}{}", u.text(&lit)), true, false, false)
            }
            Stmt::WDelete { l } => (format!("MATCH (n:{}) DELETE n", lab(*l)), true, false, false),
            Stmt::WMerge { l, v } => (format!("MERGE (n:{} {{p: {}}}) ON CREATE SET n.q = 1 ON MATCH SET n.q = 2", lab(*l), lit(v)), true, false, false),
            Stmt::WCreateReturn { l, v } => (format!("CREATE (n:{} {{p: {}}}) RETURN n", lab(*l), lit(v)), true, false, false),
            Stmt::WSetMap { l, m } => {
                let map = m.iter().map(|(k, v)| (["q", "r", "s"][*k as usize % 3].to_string(), v.clone())).collect();
                params.push(("m".into(), PV::Map(map)));
                (format!("MATCH (n:{}) SET n += $m", lab(*l)), true, false, false)
            }
            Stmt::NForeach { l, u } => {
                let prefix = if u.needs_n() { format!("MATCH (n:{}) ", lab(*l)) } else { String::new() };
                (format!("{prefix}FOREACH (x IN [1, 2] | {})", u.text(&lit)), true, true, false)
            }
            Stmt::NCall { l, u, ret } => {
                let (prefix, with) = if u.needs_n() { (format!("MATCH (n:{}) ", lab(*l)), "WITH n ") } else { (String::new(), "") };
                let tail = if *ret { " RETURN 1 AS one" } else { "" };
                (format!("{prefix}CALL {{ {with}{} }}{tail}", u.text(&lit)), true, true, false)
            }
            Stmt::NCallForeach { l } => (format!("CALL {{ FOREACH (x IN [1] | CREATE (:{} {{p: x}})) }}", lab(*l)), true, true, false),
            Stmt::NCallCall { l, v } => (format!("CALL {{ CALL {{ CREATE (:{} {{p: {}}}) }} }}", lab(*l), lit(v)), true, true, false),
            Stmt::NUnion { second, all, l } => {
                let w = format!("CREATE (n:{} {{p: 7}}) RETURN n.p AS v", lab(*l));
                let r = "MATCH (n:A) RETURN n.p AS v".to_string();
                let u = if *all { "UNION ALL" } else { "UNION" };
                (if *second { format!("{r} {u} {w}") } else { format!("{w} {u} {r}") }, true, true, false)
            }
            Stmt::NReadCallWrite { l } => (format!("MATCH (n:{}) WITH n.p AS v CALL {{ WITH v CREATE (:B {{p: v}}) }} RETURN v", lab(*l)), true, true, false),
            Stmt::NForeachForeach { l } => (format!("UNWIND [1, 2] AS x FOREACH (y IN [x] | FOREACH (z IN [y] | CREATE (:{} {{p: z}})))", lab(*l)), true, true, false),
        };
        Rendered { text, params, is_write, nested_update: nested, ordered }
    }
}

// ------------------------------------------------------------------ generators

/// Values that survive a JSON round trip (finite floats, no blobs/datetimes).
pub fn jval(depth: u32) -> BoxedStrategy<PV> {
    let leaf = prop_oneof![
        1 => Just(PV::Null),
        2 => any::<bool>().prop_map(PV::Bool),
        4 => prop_oneof![-3i64..4, crate::pv::boundary_i64()].prop_map(PV::Int),
        4 => prop::sample::select(vec![0.0f64, -0.0, 1.0, 1.5, -2.25, 0.1, 1e-7, 123456789.125, 1e21, 1e300, -1e-300, 4.9e-324, 9007199254740993.0, 2.0]).prop_map(PV::f),
        3 => prop::sample::select(vec!["", "a", "type", "node", "x y", "é中😀", "q\"uote", "back\\slash", "line\nbreak"]).prop_map(|s| PV::Str(s.to_string())),
    ];
    if depth == 0 {
        return leaf.boxed();
    }
    leaf.prop_recursive(depth, 16, 3, |inner| {
        prop_oneof![
            prop::collection::vec(inner.clone(), 0..3).prop_map(PV::List),
            prop::collection::btree_map(prop::sample::select(vec!["k", "type", "id", "a b"]).prop_map(|s| s.to_string()), inner, 0..3).prop_map(PV::Map),
        ]
    })
    .boxed()
}

fn scalar() -> BoxedStrategy<PV> {
    jval(0)
}

fn upd() -> impl Strategy<Value = Upd> {
    prop_oneof![
        3 => (0u8..3, scalar()).prop_map(|(l, v)| Upd::Create { l, v }),
        1 => (0u8..3, scalar()).prop_map(|(l, v)| Upd::Merge { l, v }),
        3 => jval(1).prop_map(|v| Upd::SetProp { v }),
        1 => (0u8..3).prop_map(|l| Upd::SetLabel { l }),
        1 => Just(Upd::RemoveProp),
        1 => (0u8..3).prop_map(|l| Upd::RemoveLabel { l }),
        1 => Just(Upd::DetachDelete),
    ]
}

fn stmt() -> impl Strategy<Value = Stmt> {
    let l = || 0u8..3;
    prop_oneof![
        // reads
        3 => l().prop_map(|l| Stmt::RNodes { l }),
        2 => (0u8..2).prop_map(|t| Stmt::RRels { t }),
        2 => (l(), 1u8..3).prop_map(|(l, k)| Stmt::RPaths { l, k }),
        2 => Just(Stmt::RProps),
        3 => jval(2).prop_map(|v| Stmt::REcho { v }),
        2 => jval(2).prop_map(|v| Stmt::RLit { v }),
        2 => (scalar(), scalar(), 0u8..6).prop_map(|(a, b, op)| Stmt::RArith { a, b, op }),
        1 => Just(Stmt::RAgg),
        1 => prop::collection::vec(jval(1), 0..4).prop_map(|l| Stmt::RUnwind { l }),
        1 => l().prop_map(|l| Stmt::RSubquery { l }),
        1 => any::<bool>().prop_map(|all| Stmt::RUnion { all }),
        1 => l().prop_map(|l| Stmt::RMapOfNode { l }),
        1 => Just(Stmt::RListOfEntities),
        1 => (l(), scalar()).prop_map(|(l, v)| Stmt::RParamFilter { l, v }),
        2 => (0u8..6).prop_map(|kind| Stmt::RBad { kind }),
        // writes
        3 => (prop::collection::vec(l(), 0..3), jval(1)).prop_map(|(ls, v)| Stmt::WCreate { ls, v }),
        2 => (l(), l(), 0u8..2, scalar()).prop_map(|(l1, l2, t, v)| Stmt::WCreateRel { l1, l2, t, v }),
        3 => (l(), upd()).prop_map(|(l, u)| Stmt::WMatchUpd { l, u }),
        1 => l().prop_map(|l| Stmt::WDelete { l }),
        1 => (l(), scalar()).prop_map(|(l, v)| Stmt::WMerge { l, v }),
        1 => (l(), scalar()).prop_map(|(l, v)| Stmt::WCreateReturn { l, v }),
        1 => (l(), prop::collection::vec((0u8..3, jval(1)), 0..3)).prop_map(|(l, m)| Stmt::WSetMap { l, m }),
        // nested updates
        3 => (l(), upd()).prop_map(|(l, u)| Stmt::NForeach { l, u }),
        3 => (l(), upd(), any::<bool>()).prop_map(|(l, u, ret)| Stmt::NCall { l, u, ret }),
        1 => l().prop_map(|l| Stmt::NCallForeach { l }),
        1 => (l(), scalar()).prop_map(|(l, v)| Stmt::NCallCall { l, v }),
        2 => (any::<bool>(), any::<bool>(), l()).prop_map(|(second, all, l)| Stmt::NUnion { second, all, l }),
        1 => l().prop_map(|l| Stmt::NReadCallWrite { l }),
        1 => l().prop_map(|l| Stmt::NForeachForeach { l }),
    ]
}

#[derive(Debug, Clone, Serialize, Deserialize)]
pub struct Case {
    /// initial nodes: labels and property p
    pub nodes: Vec<(Vec<u8>, PV)>,
    /// initial relationships (src index, type, dst index, w)
    pub rels: Vec<(u8, u8, u8, PV)>,
    pub stmts: Vec<Stmt>,
    /// set only in reproducers of open findings: do not apply exclusions by construction
    #[serde(default)]
    pub no_exclusions: bool,
}

pub fn case() -> impl Strategy<Value = Case> {
    (
        prop::collection::vec((prop::collection::vec(0u8..3, 0..3), scalar()), 0..5),
        prop::collection::vec((any::<u8>(), 0u8..2, any::<u8>(), scalar()), 0..5),
        prop::collection::vec(stmt(), 1..7),
    )
        .prop_map(|(nodes, rels, stmts)| Case { nodes, rels, stmts, no_exclusions: false })
}

fn setup_text(c: &Case) -> Option<String> {
    if c.nodes.is_empty() {
        return None;
    }
    let mut parts: Vec<String> = Vec::new();
    for (i, (ls, v)) in c.nodes.iter().enumerate() {
        let mut seen = Vec::new();
        let labels: String = ls
            .iter()
            .filter(|l| {
                let f = !seen.contains(*l);
                seen.push(**l);
                f
            })
            .map(|l| format!(":{}", lab(*l)))
            .collect();
        parts.push(format!("(n{i}{labels} {{p: {}}})", literal(v)));
    }
    let n = c.nodes.len();
    for (s, t, d, w) in &c.rels {
        parts.push(format!("(n{})-[:{} {{w: {}}}]->(n{})", *s as usize % n, ty(*t), literal(w), *d as usize % n));
    }
    Some(format!("CREATE {}", parts.join(", ")))
}

// ------------------------------------------------------------------ Rust side

#[derive(Debug, Clone)]
pub enum RErr {
    /// refused by prepare()
    Prepare(String),
    /// failed while executing
    Exec(String),
    /// failed at commit
    Commit(String),
    Panic(String, String),
}

/// Documented JSON shape of one value.
pub fn to_doc(v: &Value) -> J {
    match v {
        Value::Null => J::Null,
        Value::Bool(b) => J::Bool(*b),
        Value::Int(i) => json!(i),
        // JSON has no NaN/infinity: marked so that the comparison reports the loss specifically
        Value::Float(f) if !f.is_finite() => json!({"$harness": "non-finite-float", "bits": f.to_bits()}),
        Value::Float(f) => json!(f),
        Value::String(s) => J::String(s.clone()),
        Value::List(l) => J::Array(l.iter().map(to_doc).collect()),
        Value::Map(m) => J::Object(m.iter().map(|(k, v)| (k.clone(), to_doc(v))).collect()),
        Value::Node(n) => json!({"type": "node", "id": n.id, "labels": n.labels, "properties": props_doc(&n.properties)}),
        Value::Relationship(r) => json!({"type": "relationship", "src": r.key.src, "dst": r.key.dst, "rel_type": r.rel_type, "properties": props_doc(&r.properties)}),
        Value::ReifiedPath(p) => json!({
            "type": "path",
            "nodes": p.nodes.iter().map(|n| to_doc(&Value::Node(n.clone()))).collect::<Vec<_>>(),
            "relationships": p.relationships.iter().map(|r| to_doc(&Value::Relationship(r.clone()))).collect::<Vec<_>>(),
        }),
        other => json!({"$harness": "undocumented-value-kind", "debug": format!("{other:?}")}),
    }
}

fn props_doc(m: &std::collections::BTreeMap<String, Value>) -> J {
    J::Object(m.iter().map(|(k, v)| (k.clone(), to_doc(v))).collect())
}

fn mk_params(pairs: &[(String, PV)]) -> Params {
    let mut p = Params::new();
    for (k, v) in pairs {
        p.insert(k.clone(), pv_to_value(v));
    }
    p
}

/// Parameter object as JSON text (documented: `params_json` is a JSON object).
pub fn params_json(pairs: &[(String, PV)]) -> Option<String> {
    fn pj(v: &PV) -> J {
        match v {
            PV::Null => J::Null,
            PV::Bool(b) => J::Bool(*b),
            PV::Int(i) => json!(i),
            PV::Float(b) => json!(f64::from_bits(*b)),
            PV::Str(s) => J::String(s.clone()),
            PV::List(l) => J::Array(l.iter().map(pj).collect()),
            PV::Map(m) => J::Object(m.iter().map(|(k, v)| (k.clone(), pj(v))).collect()),
            PV::DateTime(_) | PV::Blob(_) => J::Null,
        }
    }
    if pairs.is_empty() {
        return None;
    }
    let mut o = JMap::new();
    for (k, v) in pairs {
        o.insert(k.clone(), pj(v));
    }
    Some(J::Object(o).to_string())
}

pub fn rust_read(db: &Db, q: &str, params: &Params) -> Result<Vec<J>, RErr> {
    let r = catch(|| -> Result<Vec<J>, RErr> {
        let prepared = prepare(q).map_err(|e| RErr::Prepare(e.to_string()))?;
        let snap = db.snapshot();
        let mut rows = Vec::new();
        for row in prepared.execute_streaming(&snap, params) {
            let row = row.map_err(|e| RErr::Exec(e.to_string()))?;
            let row = row.reify(&snap).map_err(|e| RErr::Exec(e.to_string()))?;
            let mut o = JMap::new();
            for (k, v) in row.columns() {
                o.insert(k.clone(), to_doc(v));
            }
            rows.push(J::Object(o));
        }
        Ok(rows)
    });
    match r {
        Ok(x) => x,
        Err((l, m)) => Err(RErr::Panic(l, m)),
    }
}

pub fn rust_write(db: &Db, q: &str, params: &Params) -> Result<u32, RErr> {
    let r = catch(|| -> Result<u32, RErr> {
        let prepared = prepare(q).map_err(|e| RErr::Prepare(e.to_string()))?;
        let mut txn = db.begin_write();
        let snap = db.snapshot();
        let (_rows, n) = prepared.execute_mixed(&snap, &mut txn, params).map_err(|e| RErr::Exec(e.to_string()))?;
        txn.commit().map_err(|e| RErr::Commit(e.to_string()))?;
        Ok(n)
    });
    match r {
        Ok(x) => x,
        Err((l, m)) => Err(RErr::Panic(l, m)),
    }
}

/// Error category the documentation assigns (c-api-v1 section 6 + the parity cases of
/// examples-test: statements rejected before execution - syntax, unknown function, undefined
/// variable - are `syntax`; failures while executing - delete of a connected node, type
/// errors - are `execution`; commit/I-O failures are `storage`). A message that names its own
/// class ("syntax error: ...") keeps that class whatever the stage.
pub fn expected_category(e: &RErr) -> i32 {
    let (stage_cat, msg) = match e {
        RErr::Prepare(m) => (cu::CAT_SYNTAX, m),
        RErr::Exec(m) => (cu::CAT_EXECUTION, m),
        RErr::Commit(m) => (cu::CAT_STORAGE, m),
        RErr::Panic(..) => return -1,
    };
    let lower = msg.to_lowercase();
    if lower.starts_with("syntax error") {
        cu::CAT_SYNTAX
    } else if lower.starts_with("runtime error") || lower.starts_with("execution error") || lower.starts_with("type error") {
        cu::CAT_EXECUTION
    } else {
        stage_cat
    }
}

// ------------------------------------------------------------------ comparison

/// Canonical form: labels of node objects sorted (a label set has no order), floats by bits.
fn canon_doc(v: &J) -> J {
    match v {
        J::Array(a) => J::Array(a.iter().map(canon_doc).collect()),
        J::Object(o) => {
            let is_node = o.get("type").and_then(J::as_str) == Some("node") && o.contains_key("labels") && o.contains_key("id");
            let mut out = JMap::new();
            for (k, x) in o {
                if is_node && k == "labels" {
                    if let J::Array(ls) = x {
                        let mut ls: Vec<String> = ls.iter().map(|l| l.to_string()).collect();
                        ls.sort();
                        out.insert(k.clone(), J::Array(ls.into_iter().map(J::String).collect()));
                        continue;
                    }
                }
                out.insert(k.clone(), canon_doc(x));
            }
            J::Object(out)
        }
        J::Number(n) if n.is_f64() => json!({"$f64bits": n.as_f64().unwrap().to_bits()}),
        other => other.clone(),
    }
}

fn has_kind(v: &J) -> (bool, bool, bool, bool, bool) {
    // (node, relationship, path, map, float)
    fn walk(v: &J, acc: &mut (bool, bool, bool, bool, bool)) {
        match v {
            J::Array(a) => a.iter().for_each(|x| walk(x, acc)),
            J::Object(o) => {
                match o.get("type").and_then(J::as_str) {
                    Some("node") if o.contains_key("labels") => acc.0 = true,
                    Some("relationship") if o.contains_key("rel_type") => acc.1 = true,
                    Some("path") if o.contains_key("relationships") => acc.2 = true,
                    _ => acc.3 = true,
                }
                o.values().for_each(|x| walk(x, acc));
            }
            J::Number(n) if n.is_f64() => acc.4 = true,
            _ => {}
        }
    }
    let mut acc = (false, false, false, false, false);
    // `v` is the result document: an array of row objects; only the column values count
    if let J::Array(rows) = v {
        for row in rows {
            if let J::Object(o) = row {
                o.values().for_each(|x| walk(x, &mut acc));
            }
        }
    }
    acc
}

fn first_diff(a: &J, b: &J, path: String) -> Option<(String, String)> {
    // returns (signature-kind, description)
    match (a, b) {
        (J::Array(x), J::Array(y)) => {
            if x.len() != y.len() {
                return Some(("length".into(), format!("{path}: {} vs {} elements", x.len(), y.len())));
            }
            x.iter().zip(y).enumerate().find_map(|(i, (p, q))| first_diff(p, q, format!("{path}[{i}]")))
        }
        (J::Object(x), J::Object(y)) => {
            if x.get("$harness").and_then(J::as_str) == Some("non-finite-float") {
                return Some(("non-finite-float".into(), format!("{path}: Rust returns a non-finite float (bits {}), C API returns {b}", x["bits"])));
            }
            for (k, p) in x {
                match y.get(k) {
                    None => return Some(("missing-key".into(), format!("{path}.{k}: missing in the C API document"))),
                    Some(q) => {
                        if let Some(d) = first_diff(p, q, format!("{path}.{k}")) {
                            return Some(d);
                        }
                    }
                }
            }
            y.keys().find(|k| !x.contains_key(*k)).map(|k| ("extra-key".into(), format!("{path}.{k}: only in the C API document")))
        }
        (J::Object(x), other) if x.get("$harness").and_then(J::as_str) == Some("non-finite-float") => {
            Some(("non-finite-float".into(), format!("{path}: Rust returns a non-finite float (bits {}), C API returns {other}", x["bits"])))
        }
        (p, q) if p == q => None,
        (p, q) => {
            let kind = |v: &J| match v {
                J::Null => "null",
                J::Bool(_) => "bool",
                J::Number(_) => "number",
                J::String(_) => "string",
                J::Array(_) => "list",
                J::Object(o) if o.contains_key("$f64bits") => "float",
                J::Object(_) => "object",
            };
            Some((format!("{}-vs-{}", kind(p), kind(q)), format!("{path}: Rust {p} vs C API {q}")))
        }
    }
}

/// Compares the Rust rows with the C API document.
fn compare_rows(rust: &[J], c_doc: &J, ordered: bool) -> Result<(), (String, String)> {
    let J::Array(c_rows) = c_doc else {
        return Err(("result-not-array".into(), format!("C API result is not a JSON array: {c_doc}")));
    };
    let mut a: Vec<J> = rust.iter().map(canon_doc).collect();
    let mut b: Vec<J> = c_rows.iter().map(canon_doc).collect();
    if !ordered {
        a.sort_by_key(|x| x.to_string());
        b.sort_by_key(|x| x.to_string());
    }
    match first_diff(&J::Array(a), &J::Array(b), "rows".into()) {
        None => Ok(()),
        Some(d) => Err(d),
    }
}

fn state_queries() -> [(&'static str, bool); 2] {
    [("MATCH (n) RETURN n ORDER BY id(n)", true), ("MATCH (a)-[r]->(b) RETURN r, id(a) AS a, id(b) AS b", false)]
}

fn c_state(c: &CDb) -> Result<Vec<J>, CErr> {
    state_queries().iter().map(|(q, _)| c.query(q, None)).collect()
}

fn compare_state(r: &Db, c: &CDb, when: &str) -> CaseResult {
    for (q, ordered) in state_queries() {
        let rr = rust_read(r, q, &Params::new()).map_err(|e| Failure::new("state-read-failed:rust", format!("{when}: {q}: {e:?}")))?;
        let cc = c.query(q, None).map_err(|e| Failure::new("state-read-failed:capi", format!("{when}: {q}: {e:?}")))?;
        if let Err((k, d)) = compare_rows(&rr, &cc, ordered) {
            return Err(Failure::new(format!("state-differs:{k}"), format!("{when}: database contents differ between the two APIs\n  {q}\n  {d}")));
        }
    }
    Ok(())
}

pub fn run(ctx: &mut RunCtx) {
    ctx.assume("documented JSON shape: result = array of row objects (column -> value); scalars as JSON scalars; node {type,id,labels,properties}; relationship {type,src,dst,rel_type,properties}; path {type,nodes,relationships}; maps as objects. Label order inside a node and row order without ORDER BY are not compared");
    ctx.assume("documented categories: rejected before execution -> syntax, failed while executing -> execution, commit/I-O -> storage; a message that names its class keeps it");
    ctx.assume("a statement is a write iff the generator put an update clause anywhere in it (top level, CALL {} subquery, FOREACH, UNION branch)");
    let x_nonfinite = ctx.has_open("value-differs:non-finite-float");
    let cases = ctx.tier.pick(72_000, 1_200_000);
    let test = move |c: &Case, obs: &mut Obs| -> CaseResult {
        let dir = temp_dir();
        let rdb = open_db(&dir.join("rust"))?;
        let cdb = CDb::open(&dir.join("capi")).map_err(|e| Failure::new("capi-open-failed", format!("{e:?}")))?;
        if let Some(s) = setup_text(c) {
            let a = rust_write(&rdb, &s, &Params::new()).map_err(|e| Failure::new("setup-failed:rust", format!("{s}: {e:?}")))?;
            let b = cdb.execute_write(&s, None).map_err(|e| Failure::new("setup-failed:capi", format!("{s}: {e:?}")))?;
            if a != b {
                return Err(Failure::new("count-differs", format!("setup {s}: Rust reports {a}, C API {b}")));
            }
        }
        compare_state(&rdb, &cdb, "after setup")?;
        let mut nontrivial = false;
        for (i, st) in c.stmts.iter().enumerate() {
            let r = st.render();
            let pj = params_json(&r.params);
            let params = mk_params(&r.params);
            let what = |s: &str| format!("statement {i}: {}  params: {}\n  {s}", r.text, pj.clone().unwrap_or_else(|| "-".into()));
            // --- Rust API (first: a statement that panics never reaches the C entry points,
            // whose extern "C" frames would abort the process)
            let rust_out: Result<Result<Vec<J>, u32>, RErr> = if r.is_write { rust_write(&rdb, &r.text, &params).map(Err) } else { rust_read(&rdb, &r.text, &params).map(Ok) };
            if let Err(RErr::Panic(loc, m)) = &rust_out {
                return Err(Failure::new(format!("panic@{loc}"), what(&format!("Rust API panicked: {m}"))));
            }
            if x_nonfinite && !c.no_exclusions {
                if let Ok(Ok(rows)) = &rust_out {
                    if rows.iter().any(|r| r.to_string().contains("non-finite-float")) {
                        obs.excluded("non-finite-float-result");
                        continue;
                    }
                }
            }
            // --- wrong entry point of the C API must refuse without any effect
            let before = c_state(&cdb).map_err(|e| Failure::new("state-read-failed:capi", what(&format!("{e:?}"))))?;
            if r.is_write {
                if let Ok(doc) = cdb.query(&r.text, pj.as_deref()) {
                    return Err(Failure::new("read-entry-accepts-write", what(&format!("ndb_query accepted a statement that contains an update clause and returned {doc}"))));
                }
            } else if let Ok(n) = cdb.execute_write(&r.text, pj.as_deref()) {
                return Err(Failure::new("write-entry-accepts-read", what(&format!("ndb_execute_write accepted a statement without any update clause (count {n})"))));
            }
            let after = c_state(&cdb).map_err(|e| Failure::new("state-read-failed:capi", what(&format!("{e:?}"))))?;
            if before != after {
                return Err(Failure::new("refused-statement-had-effect", what("the refused call changed the database")));
            }
            obs.sub_eval(None);
            // --- right entry point
            let c_out: Result<Result<J, u32>, CErr> = if r.is_write { cdb.execute_write(&r.text, pj.as_deref()).map(Err) } else { cdb.query(&r.text, pj.as_deref()).map(Ok) };
            let mut fpv: Option<u64> = None;
            match (&rust_out, &c_out) {
                (Ok(Ok(rows)), Ok(Ok(doc))) => {
                    if let Err((k, d)) = compare_rows(rows, doc, r.ordered) {
                        return Err(Failure::new(format!("value-differs:{k}"), what(&d)));
                    }
                    let k = has_kind(doc);
                    obs.class_if(k.0, "result:node");
                    obs.class_if(k.1, "result:relationship");
                    obs.class_if(k.2, "result:path");
                    obs.class_if(k.3, "result:map");
                    obs.class_if(k.4, "result:float");
                    if k.0 || k.1 || k.2 || k.3 || k.4 {
                        fpv = Some(fp(&(&r.text, &pj, doc.to_string())));
                    }
                }
                (Ok(Err(a)), Ok(Err(b))) => {
                    if a != b {
                        return Err(Failure::new("count-differs", what(&format!("Rust reports {a} changes, C API {b}"))));
                    }
                    obs.class("write:ok");
                }
                (Err(e), Err(ce)) => {
                    let want = expected_category(e);
                    if ce.category != want {
                        let stage = match e {
                            RErr::Prepare(_) => "prepare",
                            RErr::Exec(_) => "execute",
                            _ => "commit",
                        };
                        return Err(Failure::new(
                            format!("category-differs:{}-error-reported-as-{}", stage, cu::category_name(ce.category)),
                            what(&format!("Rust error {e:?} => documented category {}, C API category {} (code {}, message {:?})", cu::category_name(want), cu::category_name(ce.category), ce.code, ce.message)),
                        ));
                    }
                    obs.class(&format!("error:{}", cu::category_name(want)));
                }
                (Ok(_), Err(ce)) => {
                    let sig = if r.is_write { "write-entry-refuses-write" } else { "read-entry-refuses-read" };
                    return Err(Failure::new(sig, what(&format!("Rust API succeeds, C API fails: {ce:?}"))));
                }
                (Err(e), Ok(x)) => {
                    return Err(Failure::new("capi-succeeds-rust-fails", what(&format!("Rust API fails with {e:?}, C API returns {x:?}"))));
                }
                _ => unreachable!(),
            }
            if r.nested_update {
                obs.class("nested-update");
                if matches!(rust_out, Ok(_)) {
                    obs.class("nested-update:executed");
                    fpv = fpv.or(Some(fp(&(&r.text, &pj))));
                }
            }
            let dbg = format!("{st:?}");
            let name = dbg.split(|ch: char| !ch.is_alphanumeric()).next().unwrap_or("?");
            obs.class(&format!("{name}:{}", if rust_out.is_ok() { "ok" } else { "err" }));
            obs.class_if(r.is_write, "stmt:write");
            obs.class_if(!r.is_write, "stmt:read");
            if let Some(f) = fpv {
                nontrivial = true;
                obs.sub_eval(Some(f));
            }
            if r.is_write {
                compare_state(&rdb, &cdb, &format!("after statement {i} ({})", r.text))?;
            }
        }
        compare_state(&rdb, &cdb, "at the end")?;
        cdb.close().map_err(|e| Failure::new("capi-close-failed", format!("{e:?}")))?;
        obs.set_nontrivial(nontrivial);
        Ok(())
    };
    ctx.explore(
        "statements",
        "two databases built by the same CREATE statement; 1-6 generated statements (reads returning nodes, relationships, paths, maps, lists, floats, parameter echoes; failing statements; writes; updates nested in FOREACH, CALL {} subqueries, nested subqueries and UNION branches) run through ndb_query/ndb_execute_write and through prepare+execute on the Rust side; the wrong C entry point must refuse (and change nothing), the right one must agree with Rust on rows (own JSON converter), change counts, error category, and the database contents after every write; non-trivial = a compared result contains a node/relationship/path/map/float or an executed statement nests an update",
        cases,
        case,
        test,
    );
}
