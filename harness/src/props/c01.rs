//! C01 Acknowledged commits survive crashes (see crash.rs).
pub fn run(ctx: &mut crate::engine::RunCtx) {
    super::crash::run_which(ctx, super::crash::Which::Acked);
}
