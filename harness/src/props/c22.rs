//! C22 Runtime errors are never swallowed.
//!
//! A row source `UNWIND <list> AS x` with exactly one poison row (an argument for which the
//! projected expression raises a runtime error) is first run in the plain form
//! `RETURN f(x) AS c0`; only if that raises is the case non-trivial. The same projection
//! is then wrapped in every result operator that has to consume the poison row: DISTINCT,
//! UNION / UNION ALL on either side, ORDER BY (alias and expression), aggregation (argument,
//! grouping key, DISTINCT aggregate), WITH .. WHERE, WHERE on the expression, SKIP/LIMIT
//! windows that contain the poison row, WITH DISTINCT, list comprehension, nested UNWIND,
//! CALL {} subquery. Oracle: the wrapped query reports an error. Variants that may
//! legitimately stop before the poison row (LIMIT before it, SKIP over it) are not generated.
use super::exprlib::{self as xl, Binder};
use crate::cy::QErr;
use crate::engine::{CaseResult, Failure, Obs, RunCtx, idx};
use crate::pv::PV;
use proptest::prelude::*;
use serde::{Deserialize, Serialize};
use std::collections::BTreeMap;

#[derive(Debug, Clone, Serialize, Deserialize)]
pub struct Poison {
    /// index into `funcs()`
    func: u16,
    /// picks of good arguments (rows before/after the poison row)
    good: Vec<u16>,
    /// pick of the poison argument
    bad: u16,
    /// position of the poison row among the rows
    pos: u16,
    /// index into `WRAPPERS`
    wrapper: u16,
    lit: bool,
    /// SKIP/LIMIT slack for the window wrapper
    before: u8,
    after: u8,
}

struct Func {
    name: &'static str,
    /// projection text for the row variable
    tmpl: fn(&str) -> String,
    good: Vec<PV>,
    bad: Vec<PV>,
    /// the projection is itself an aggregate (then it cannot be nested in another aggregate)
    aggregate: bool,
}

fn s(x: &str) -> PV {
    PV::Str(x.to_string())
}
fn l(x: Vec<PV>) -> PV {
    PV::List(x)
}
fn m(k: &str, v: PV) -> PV {
    let mut b = BTreeMap::new();
    b.insert(k.to_string(), v);
    PV::Map(b)
}

fn funcs() -> Vec<Func> {
    vec![
        Func { name: "toBoolean", tmpl: |x| format!("toBoolean({x})"), good: vec![PV::Bool(true), PV::Bool(false), s("true"), s("nope"), PV::Null], bad: vec![PV::Int(1), PV::f(1.5), l(vec![PV::Bool(true)]), m("a", PV::Int(1))], aggregate: false },
        Func { name: "toInteger", tmpl: |x| format!("toInteger({x})"), good: vec![PV::Int(7), PV::f(2.5), s("12"), s("x"), PV::Null], bad: vec![PV::Bool(true), l(vec![PV::Int(1)]), m("a", PV::Int(1))], aggregate: false },
        Func { name: "toFloat", tmpl: |x| format!("toFloat({x})"), good: vec![PV::Int(7), PV::f(2.5), s("1.5"), PV::Null], bad: vec![PV::Bool(false), l(vec![]), m("a", PV::Int(1))], aggregate: false },
        Func { name: "toString", tmpl: |x| format!("toString({x})"), good: vec![PV::Int(7), PV::f(2.5), s("a"), PV::Bool(true), PV::Null], bad: vec![l(vec![PV::Int(1)]), m("a", PV::Int(1))], aggregate: false },
        Func { name: "list-index", tmpl: |x| format!("[10, 20, 30][{x}]"), good: vec![PV::Int(0), PV::Int(2), PV::Int(-1), PV::Int(9), PV::Null], bad: vec![s("a"), PV::f(1.5), PV::Bool(true)], aggregate: false },
        Func { name: "map-index", tmpl: |x| format!("{{a: 1, b: 2}}[{x}]"), good: vec![s("a"), s("b"), s("zz"), PV::Null], bad: vec![PV::Int(1), PV::Bool(true), PV::f(0.5)], aggregate: false },
        Func { name: "labels", tmpl: |x| format!("labels({x})"), good: vec![PV::Null], bad: vec![PV::Int(1), s("a"), l(vec![])], aggregate: false },
        Func { name: "type", tmpl: |x| format!("type({x})"), good: vec![PV::Null], bad: vec![PV::Int(1), s("a"), PV::Bool(true)], aggregate: false },
        Func { name: "index-into-row", tmpl: |x| format!("{x}[0]"), good: vec![l(vec![PV::Int(1)]), l(vec![]), l(vec![s("a"), PV::Null]), PV::Null], bad: vec![PV::Int(1), s("abc"), m("a", PV::Int(1)), PV::Bool(true)], aggregate: false },
        Func { name: "comprehension", tmpl: |x| format!("[y IN {x} | toBoolean(y)]"), good: vec![l(vec![PV::Bool(true), s("false")]), l(vec![]), l(vec![PV::Null]), PV::Null], bad: vec![l(vec![PV::Bool(true), PV::Int(1)]), l(vec![PV::f(0.5)])], aggregate: false },
        Func { name: "nested-in-binary", tmpl: |x| format!("(toInteger({x}) + 1)"), good: vec![PV::Int(7), s("12"), PV::Null], bad: vec![PV::Bool(true), l(vec![PV::Int(1)])], aggregate: false },
        Func { name: "nested-in-list", tmpl: |x| format!("[toBoolean({x}), 1]"), good: vec![PV::Bool(true), s("true"), PV::Null], bad: vec![PV::Int(1), PV::f(1.0)], aggregate: false },
        Func { name: "nested-in-case", tmpl: |x| format!("CASE WHEN toBoolean({x}) THEN 1 ELSE 0 END"), good: vec![PV::Bool(true), s("false"), PV::Null], bad: vec![PV::Int(1), PV::f(1.0)], aggregate: false },
        // the failing call in other operand positions (an executor that decides per projection
        // whether it has to run the runtime check must look at every operand)
        Func { name: "binary-right", tmpl: |x| format!("(10 + toInteger({x}))"), good: vec![PV::Int(7), s("12"), PV::Null], bad: vec![PV::Bool(true), l(vec![PV::Int(1)])], aggregate: false },
        Func { name: "binary-right-mul", tmpl: |x| format!("(2 * toInteger({x}))"), good: vec![PV::Int(7), s("12"), PV::Null], bad: vec![PV::Bool(true), m("a", PV::Int(1))], aggregate: false },
        Func { name: "compare-right", tmpl: |x| format!("(1 < toInteger({x}))"), good: vec![PV::Int(7), s("12"), PV::Null], bad: vec![PV::Bool(true), l(vec![PV::Int(1)])], aggregate: false },
        Func { name: "compare-left", tmpl: |x| format!("(toInteger({x}) >= 3)"), good: vec![PV::Int(7), s("12"), PV::Null], bad: vec![PV::Bool(false), l(vec![])], aggregate: false },
        Func { name: "in-list-element", tmpl: |x| format!("(1 IN [2, toInteger({x})])"), good: vec![PV::Int(1), s("12"), PV::Null], bad: vec![PV::Bool(true), l(vec![PV::Int(1)])], aggregate: false },
        Func { name: "nested-in-map", tmpl: |x| format!("{{a: 1, b: toBoolean({x})}}"), good: vec![PV::Bool(true), s("true"), PV::Null], bad: vec![PV::Int(1), PV::f(1.0)], aggregate: false },
        Func { name: "function-argument", tmpl: |x| format!("abs(toInteger({x}))"), good: vec![PV::Int(-7), s("12"), PV::Null], bad: vec![PV::Bool(true), l(vec![PV::Int(1)])], aggregate: false },
        Func { name: "string-concat-right", tmpl: |x| format!("('a' + toString({x}))"), good: vec![PV::Int(7), s("b"), PV::Null], bad: vec![l(vec![PV::Int(1)]), m("a", PV::Int(1))], aggregate: false },
        Func { name: "unary-minus", tmpl: |x| format!("(-toInteger({x}))"), good: vec![PV::Int(7), s("12"), PV::Null], bad: vec![PV::Bool(true), l(vec![PV::Int(1)])], aggregate: false },
        Func { name: "case-else", tmpl: |x| format!("CASE WHEN 1 = 2 THEN 1 ELSE toInteger({x}) END"), good: vec![PV::Int(7), s("12"), PV::Null], bad: vec![PV::Bool(true), l(vec![PV::Int(1)])], aggregate: false },
        Func { name: "coalesce-second", tmpl: |x| format!("coalesce(null, toInteger({x}))"), good: vec![PV::Int(7), s("12"), PV::Null], bad: vec![PV::Bool(true), l(vec![PV::Int(1)])], aggregate: false },
        Func { name: "is-null-of-call", tmpl: |x| format!("(toInteger({x}) IS NULL)"), good: vec![PV::Int(7), s("x"), PV::Null], bad: vec![PV::Bool(true), l(vec![PV::Int(1)])], aggregate: false },
        Func { name: "index-right", tmpl: |x| format!("[10, 20, 30][toInteger({x})]"), good: vec![PV::Int(0), s("1"), PV::Null], bad: vec![PV::Bool(true), l(vec![PV::Int(1)])], aggregate: false },
        Func { name: "second-of-three", tmpl: |x| format!("(1 + toInteger({x}) + 2)"), good: vec![PV::Int(7), s("12"), PV::Null], bad: vec![PV::Bool(true), l(vec![PV::Int(1)])], aggregate: false },
        // aggregates with an out-of-range percentile: the poison "row" is the percentile itself
        Func { name: "percentileDisc", tmpl: |x| format!("percentileDisc(v, {x})"), good: vec![PV::f(0.0), PV::f(0.5), PV::f(1.0), PV::Int(1)], bad: vec![PV::f(2.0), PV::f(-0.5), PV::Int(7)], aggregate: true },
        Func { name: "percentileCont", tmpl: |x| format!("percentileCont(v, {x})"), good: vec![PV::f(0.0), PV::f(0.5), PV::f(1.0)], bad: vec![PV::f(1.5), PV::f(-1.0), PV::Int(-3)], aggregate: true },
    ]
}

/// The failing call of a composite projection on its own (the operand is always evaluated).
fn base_of(name: &str) -> Option<fn(&str) -> String> {
    match name {
        "nested-in-binary" | "binary-right" | "binary-right-mul" | "compare-right" | "compare-left" | "in-list-element" | "function-argument" | "unary-minus" | "case-else"
        | "coalesce-second" | "is-null-of-call" | "index-right" | "second-of-three" => Some(|x| format!("toInteger({x})")),
        "nested-in-list" | "nested-in-case" | "nested-in-map" => Some(|x| format!("toBoolean({x})")),
        "string-concat-right" => Some(|x| format!("toString({x})")),
        _ => None,
    }
}

pub const WRAPPERS: &[&str] = &[
    "distinct",
    "union-left",
    "union-right",
    "union-all-left",
    "union-all-right",
    "order-by-alias",
    "order-by-expr",
    "agg-count",
    "agg-collect",
    "agg-min",
    "agg-group-key",
    "agg-count-distinct",
    "with-where",
    "where-on-expr",
    "window",
    "distinct-order-by",
    "with-distinct",
    "comprehension",
    "unwind-of-comprehension",
    "call-subquery",
    "order-by-desc-limit-all",
    "union-distinct-both",
    "with-order-by-then-return",
    "collect-then-unwind",
    "order-by-limit-1",
    "order-by-skip-all",
    "agg-then-limit-1",
];

/// (query text, does this wrapper apply). `src` is the UNWIND head, `p` the projection on `x`.
fn wrap(w: &str, src: &str, p: &str, list: &str, tmpl: fn(&str) -> String, aggregate: bool, n: usize, pos: usize, before: u8, after: u8) -> Option<String> {
    let per_row = !aggregate;
    Some(match w {
        "distinct" => format!("{src} RETURN DISTINCT {p} AS c0"),
        "union-left" => format!("{src} RETURN {p} AS c0 UNION RETURN 1 AS c0"),
        "union-right" => format!("RETURN 1 AS c0 UNION {src} RETURN {p} AS c0"),
        "union-all-left" => format!("{src} RETURN {p} AS c0 UNION ALL RETURN 1 AS c0"),
        "union-all-right" => format!("RETURN 1 AS c0 UNION ALL {src} RETURN {p} AS c0"),
        "union-distinct-both" => format!("{src} RETURN {p} AS c0 UNION {src} RETURN {p} AS c0"),
        "order-by-alias" => format!("{src} RETURN {p} AS c0 ORDER BY c0"),
        "order-by-expr" if per_row => format!("{src} RETURN x AS c0 ORDER BY {p}"),
        "order-by-desc-limit-all" => format!("{src} RETURN {p} AS c0 ORDER BY c0 DESC LIMIT {}", n + 1),
        // ORDER BY has to see every row before it can emit the first one
        "order-by-limit-1" => format!("{src} RETURN {p} AS c0 ORDER BY c0 LIMIT 1"),
        "order-by-skip-all" => format!("{src} RETURN {p} AS c0 ORDER BY c0 DESC SKIP {n}"),
        "agg-then-limit-1" if per_row => format!("{src} RETURN {p} AS c0, count(*) AS c1 LIMIT 1"),
        "agg-count" if per_row => format!("{src} RETURN count({p}) AS c0"),
        "agg-collect" if per_row => format!("{src} RETURN collect({p}) AS c0"),
        "agg-min" if per_row => format!("{src} RETURN min({p}) AS c0"),
        "agg-group-key" if per_row => format!("{src} RETURN {p} AS c0, count(*) AS c1"),
        "agg-count-distinct" if per_row => format!("{src} RETURN count(DISTINCT {p}) AS c0"),
        "with-where" => format!("{src} WITH {p} AS y WHERE y IS NULL OR y IS NOT NULL RETURN y AS c0"),
        "where-on-expr" if per_row => format!("{src} WITH x WHERE {p} IS NOT NULL OR x IS NULL RETURN x AS c0"),
        "window" if per_row => {
            // the window [s, s+l) contains the poison row
            let s = pos.saturating_sub(before as usize % (pos + 1));
            let l = (pos - s) + 1 + after as usize;
            format!("{src} RETURN {p} AS c0 SKIP {s} LIMIT {l}")
        }
        "distinct-order-by" => format!("{src} RETURN DISTINCT {p} AS c0 ORDER BY c0"),
        "with-distinct" => format!("{src} WITH DISTINCT {p} AS y RETURN y AS c0"),
        "with-order-by-then-return" => format!("{src} WITH {p} AS y ORDER BY y RETURN y AS c0"),
        "comprehension" if per_row => format!("RETURN [x IN {list} | {}] AS c0", tmpl("x")),
        "unwind-of-comprehension" if per_row => format!("UNWIND [x IN {list} | {}] AS y RETURN DISTINCT y AS c0", tmpl("x")),
        "call-subquery" => format!("CALL {{ {src} RETURN {p} AS y }} RETURN DISTINCT y AS c0"),
        "collect-then-unwind" if per_row => format!("{src} WITH collect({p}) AS ys UNWIND ys AS y RETURN DISTINCT y AS c0"),
        _ => return None,
    })
}

fn strategy() -> impl Strategy<Value = Poison> {
    (any::<u16>(), prop::collection::vec(any::<u16>(), 0..6), any::<u16>(), any::<u16>(), any::<u16>(), any::<bool>(), any::<u8>(), 0u8..4)
        .prop_map(|(func, good, bad, pos, wrapper, lit, before, after)| Poison { func, good, bad, pos, wrapper, lit, before, after })
}

fn outcome(q: &str, bd: &Binder) -> Result<Result<usize, String>, Failure> {
    match xl::run(q, bd) {
        Ok((_, rows)) => Ok(Ok(rows.len())),
        Err(QErr::Panic(l, m)) => Err(Failure::new(format!("panic@{l}"), format!("panic at {l}: {m} in {q} params={:?}", bd.params))),
        Err(QErr::Prepare(e)) => Err(Failure::new("prepare-error", format!("{e} in {q}"))),
        Err(e) => Ok(Err(e.text())),
    }
}

fn check(c: &Poison, unsupported: &[&str], obs: &mut Obs) -> CaseResult {
    let fs = funcs();
    let f = &fs[idx(c.func, fs.len())];
    let wname = WRAPPERS[idx(c.wrapper, WRAPPERS.len())];
    obs.class(&format!("func:{}", f.name));
    obs.class(&format!("wrap:{wname}"));
    if unsupported.contains(&wname) {
        obs.class("wrapper-unsupported-by-parser");
        return Ok(());
    }
    // rows: good values with the poison value inserted at `pos`
    let mut vals: Vec<PV> = c.good.iter().map(|g| f.good[idx(*g, f.good.len())].clone()).collect();
    let pos = idx(c.pos, vals.len() + 1);
    vals.insert(pos, f.bad[idx(c.bad, f.bad.len())].clone());
    let n = vals.len();
    let mut bd = Binder::new(c.lit);
    let list = bd.bind(&PV::List(vals.clone()));
    let plain;
    let q;
    if f.aggregate {
        // one group per percentile value; the aggregate of the poison group raises when it is
        // finalised, the wrappers then see that error coming from their input
        let src = format!("UNWIND {list} AS pc UNWIND [1, 2, 3] AS v WITH pc AS g, {} AS x", (f.tmpl)("pc"));
        plain = format!("{src} RETURN x AS c0");
        q = match wname {
            "window" | "comprehension" | "unwind-of-comprehension" => None, // group order is unspecified / no row variable
            _ => wrap(wname, &src, "x", &list, f.tmpl, false, n, pos, c.before, c.after),
        };
    } else {
        let src = format!("UNWIND {list} AS x");
        let p = (f.tmpl)("x");
        plain = format!("{src} RETURN {p} AS c0");
        q = wrap(wname, &src, &p, &list, f.tmpl, false, n, pos, c.before, c.after);
    }
    // ---- plain form must raise
    match outcome(&plain, &bd)? {
        Ok(rows) => {
            // the failing call sits in an operand position that is always evaluated: when the
            // call alone raises for this row, the enclosing expression has to raise as well
            if let Some(base) = base_of(f.name) {
                let alone = format!("UNWIND {list} AS x RETURN {} AS c0", base("x"));
                if outcome(&alone, &bd)?.is_err() {
                    obs.nontrivial();
                    fail!(
                        format!("error-swallowed:operand-position:{}", f.name),
                        "the call alone raises but the enclosing expression returned {rows} rows without an error\n call alone: {alone}\n enclosing: {plain}\n params: {:?}\n poison row {pos} of {n}",
                        bd.params
                    );
                }
            }
            obs.class("plain-did-not-raise");
            return Ok(());
        }
        Err(_) => obs.nontrivial(),
    }
    // sanity: without the poison row the plain form succeeds (so the error belongs to that row)
    {
        let mut good = vals.clone();
        good.remove(pos);
        let mut bd2 = Binder::new(c.lit);
        let l2 = bd2.bind(&PV::List(good));
        let q = plain.replacen(&list, &l2, 1);
        if let Err(e) = outcome(&q, &bd2)? {
            fail!("good-rows-raise", "the rows without the poison row raise as well: {e} in {q} params={:?}", bd2.params);
        }
    }
    let Some(q) = q else {
        obs.class("wrapper-not-applicable");
        return Ok(());
    };
    obs.sub_eval(Some(crate::engine::fp(&(f.name, wname))));
    match outcome(&q, &bd)? {
        Err(_) => Ok(()),
        Ok(rows) => {
            let fam = match wname {
                "distinct" | "distinct-order-by" | "with-distinct" | "unwind-of-comprehension" | "call-subquery" | "collect-then-unwind" => "distinct",
                "union-left" | "union-right" | "union-distinct-both" => "union",
                o => o,
            };
            fail!(format!("error-swallowed:{fam}"), "plain form raises but the wrapped query returned {rows} rows without an error\n plain: {plain}\n wrapped: {q}\n params: {:?}\n poison row {pos} of {n}", bd.params)
        }
    }
}

pub fn run(ctx: &mut RunCtx) {
    ctx.assume("a row is consumed by DISTINCT, UNION, ORDER BY, aggregation, WHERE and by a SKIP/LIMIT window that contains it; LIMIT that ends before the poison row and SKIP over it are not generated");
    // wrappers the parser does not accept are probed once with harmless input and skipped (recorded)
    let mut unsupported: Vec<&'static str> = Vec::new();
    for w in WRAPPERS {
        let q = wrap(w, "UNWIND [true] AS x", "toBoolean(x)", "[true]", |x| format!("toBoolean({x})"), false, 1, 0, 0, 0).unwrap();
        let bd = Binder::new(true);
        if let Err(e) = xl::run(&q, &bd) {
            unsupported.push(w);
            ctx.note(format!("wrapper {w} not usable ({}): {q}", e.text()));
        }
    }
    let n = ctx.tier.pick(1_600_000, 40_000_000);
    ctx.explore(
        "poison-row",
        "15 raising projections (conversions, index/key type errors, labels()/type() on non-entities, comprehension, nested in binary/list/CASE, percentileDisc/Cont out of range) x 27 wrappers, poison row at a generated position among 0-5 good rows, literals or parameters; non-trivial = the plain RETURN form raised (and the same rows without the poison row did not)",
        n,
        strategy,
        move |c: &Poison, obs: &mut Obs| check(c, &unsupported, obs),
    );
}
