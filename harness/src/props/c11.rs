//! C11 Cypher read results match reference semantics (differential against `refcy`).
use crate::cy;
use crate::engine::{Obs, RunCtx};
use crate::props::probe::show;
use crate::refcy::r#gen::{self, Gen, GenOpts};
use crate::refcy::{self, ReadCase, Verdict, print};
use proptest::prelude::*;

pub fn read_case(opts: GenOpts, excl_mixed: bool) -> impl Strategy<Value = ReadCase> {
    (r#gen::graph(), r#gen::tape()).prop_map(move |(g, tape)| {
        let opts = opts.clone();
        let mut gn = Gen::new(&tape, opts.clone());
        let (q, kinds) = gn.read_query();
        let mut excluded = None;
        if excl_mixed && refcy::mixes_varlen_and_fixed(&q) {
            // open finding: variable-length steps count parallel instances without replacement,
            // fixed-length steps with replacement, so a MATCH mixing both fits neither reading
            let (model, _) = r#gen::graph_writes(&g);
            let (_, touched) = refcy::reference_outcomes_touched(&model, &q, &gn.params);
            if touched & refcy::eval::T_UNIQ != 0 {
                excluded = Some("parallel-instances-under-mixed-varlen-and-fixed-steps".to_string());
            }
        }
        ReadCase { g, q, kinds, params: gn.params.clone(), feat: gn.feat.clone(), excluded }
    })
}

/// Do engine and reference rows agree once every list of relationships is reversed?
fn reversed_varlen_list(res: &Result<(Vec<String>, Vec<Vec<cy::CV>>), cy::QErr>, outs: &[(refcy::eval::Reading, Result<refcy::eval::Outcome, refcy::eval::EvalErr>)], g: &crate::model::Model) -> bool {
    fn rev(v: &cy::CV) -> cy::CV {
        match v {
            cy::CV::List(l) if !l.is_empty() && l.iter().all(|x| matches!(x, cy::CV::Rel { .. })) => cy::CV::List(l.iter().rev().cloned().collect()),
            o => o.clone(),
        }
    }
    let (Ok((_, rows)), Some((_, Ok(o)))) = (res, outs.first()) else { return false };
    let mut a: Vec<Vec<cy::CV>> = rows.iter().map(|r| r.iter().map(rev).collect()).collect();
    let mut b: Vec<Vec<cy::CV>> = o.window().iter().map(|r| r.iter().map(|v| refcy::eval::to_cv(g, v)).collect()).collect();
    let mut c: Vec<Vec<cy::CV>> = rows.clone();
    a.sort();
    b.sort();
    c.sort();
    a == b && c != b
}

pub fn rows_text(rows: &[Vec<cy::CV>]) -> String {
    rows.iter().take(12).map(|r| format!("[{}]", r.iter().map(show).collect::<Vec<_>>().join(" | "))).collect::<Vec<_>>().join(" ")
}

pub fn run(ctx: &mut RunCtx) {
    ctx.assume("oracle: independent reference evaluator (harness/src/refcy) with openCypher 9 semantics; where two readings are defensible (uniqueness among parallel relationship instances, identity of parallel instances as values, grouping of 1 and 1.0, NaN and -0.0 as grouping keys) every reading the query touches is evaluated and any is accepted");
    ctx.assume("graphs are built through the storage API and verified by a full dump before the query runs; queries never create data");
    ctx.assume("label lists, key lists and collect() results are compared as multisets; sum/avg over floats with a relative tolerance of 1e-9 and without the sign of zero; rows as a multiset, or as a sequence with tie groups as multisets under a final ORDER BY; under SKIP/LIMIT the cut tie group (or, without ORDER BY, the whole result) may contribute any of its rows");
    ctx.assume("engine resource-limit errors (timeout, collection size) are skipped and counted, they are C33's subject");
    let cases = ctx.tier.pick(10_000, 200_000);
    let excl_mixed = ctx.has_open("parallel-uniqueness-mixed");
    let mut opts = GenOpts::full();
    opts.excl_reanchored_varlen = ctx.has_open("varlen-list-reversed");
    let test = |case: &ReadCase, obs: &mut Obs| {
        if let Some(why) = &case.excluded {
            obs.excluded(why);
            return Ok(());
        }
        for e in &case.feat.excluded {
            obs.excluded(e);
        }
        let built = refcy::build_db(&case.g)?;
        let text = print::query(&case.q);
        let params = cy::params_from(&case.params, Some(refcy::exec_options()));
        let (outs, touched) = refcy::reference_outcomes_touched(&built.model, &case.q, &case.params);
        // the reference's row budget also bounds the engine's work: skip before running it
        let mut res = Err(cy::QErr::Exec("not run".into()));
        let verdict = match refcy::unanswerable(&outs) {
            Some(v) => v,
            None => {
                res = cy::read(&built.db, &text, &params);
                refcy::judge_read_with(&outs, &built.model, &case.q, &case.kinds, &res)
            }
        };
        let f = &case.feat;
        match verdict {
            Verdict::Skip(why) => {
                let short: String = why.split(':').next().unwrap_or("").to_string();
                obs.class(&format!("skip:{short}"));
                if short == "unsupported" {
                    obs.class(&format!("skip:{}", why.chars().take(60).collect::<String>()));
                }
                Ok(())
            }
            Verdict::Agree { ambiguous, rows, ref_error } => {
                obs.class(&format!("shape:{}", f.shape()));
                obs.class(&format!("mix:{}", f.mix()));
                obs.class(&format!("{}|{}", f.shape(), f.mix()));
                obs.class_if(ambiguous, "ambiguous");
                obs.class_if(ref_error, "reference-error=engine-error");
                obs.class_if(rows == 0 && !ref_error, "empty-result");
                obs.class_if(case.g.compact_mid || case.g.compact_end, "graph:compacted");
                obs.class_if(case.g.reopen, "graph:reopened");
                obs.class_if(!case.g.del_nodes.is_empty() || !case.g.del_rels.is_empty(), "graph:with-deletions");
                obs.class_if(built.model.edges.values().any(|c| *c > 1), "graph:parallel-instances");
                obs.class_if(built.model.edges.keys().any(|k| k.0 == k.2), "graph:self-loop");
                obs.class_if(f.undirected, "feat:undirected");
                obs.class_if(f.join, "feat:join");
                obs.class_if(f.pat_props, "feat:pattern-properties");
                obs.class_if(f.varlen, "feat:varlen");
                obs.class_if(f.union, "feat:union");
                obs.class_if(!case.params.is_empty(), "feat:parameters");
                let nt = rows >= 1 && f.score() >= 2;
                obs.set_nontrivial(nt);
                obs.class_if(nt, "nontrivial");
                if nt {
                    obs.sample(serde_json::json!({"query": text, "rows": rows, "nodes": built.model.nodes.len(), "rel_instances": built.model.edge_instances()}));
                }
                Ok(())
            }
            Verdict::Differ { kind, detail } => {
                let engine_txt = match &res {
                    Ok((cols, rows)) => format!("cols {:?}, {} rows: {}", cols, rows.len(), rows_text(rows)),
                    Err(e) => format!("error {}", e.text()),
                };
                let ref_txt = match &outs[0].1 {
                    Ok(o) => {
                        let cv: Vec<Vec<cy::CV>> = o.full.iter().map(|r| r.iter().map(|v| refcy::eval::to_cv(&built.model, v)).collect()).collect();
                        format!("cols {:?}, {} rows (skip {} limit {:?}): {}", o.cols, o.full.len(), o.skip, o.limit, rows_text(&cv))
                    }
                    Err(e) => format!("{e:?}"),
                };
                if std::env::var("C11_SURVEY").is_ok() {
                    // triage aid: list every disagreement instead of stopping at the first
                    println!("DIFF {} :: {} :: {}", refcy::signature(&kind, &case.q), detail.lines().next().unwrap_or(""), text);
                    obs.class("survey:differ");
                    return Ok(());
                }
                let mixed = touched & refcy::eval::T_UNIQ != 0 && refcy::mixes_varlen_and_fixed(&case.q);
                let sig = if mixed && kind == "row-count" {
                    "parallel-uniqueness-mixed:varlen+fixed".to_string()
                } else if kind == "row-content" && reversed_varlen_list(&res, &outs, &built.model) {
                    "varlen-list-reversed".to_string()
                } else {
                    refcy::signature(&kind, &case.q)
                };
                fail!(
                    sig,
                    "{detail}\n  query : {text}\n  params: {:?}\n  engine: {engine_txt}\n  refer.: {ref_txt}\n  graph : nodes {:?}\n          rels {:?} props {:?}",
                    case.params,
                    built.model.nodes,
                    built.model.edges,
                    built.model.edge_props
                );
            }
        }
    };
    ctx.explore(
        "queries",
        "generated graph (<=12 nodes, <=24 relationship instances, parallel instances, self loops, typed property keys incl. nulls/NaN/-0.0, 30% compacted, 30% reopened, some with deletions) x generated well-typed read query; engine rows vs reference outcome; non-trivial = >=1 result row and >=2 of {relationship pattern, OPTIONAL, WHERE, aggregation/DISTINCT, ORDER/SKIP/LIMIT, variable length}",
        cases,
        || read_case(opts.clone(), excl_mixed),
        test,
    );
}
