//! C30 Bulk load equals transactional load.
//!
//! Database A: `nervusdb::bulkload(path, nodes, edges)`; database B: one `WriteTxn` creating
//! the same nodes in the same order, then the same relationships. Oracle: dump(A) == model
//! == dump(B), a battery of Cypher reads returns equal multisets on A and B, no panic;
//! repeated after a reopen of both and after one more (identical) transaction on both.
use crate::cy::{self, CV};
use crate::engine::{CaseResult, Failure, Obs, RunCtx, catch, idx};
use crate::hist::{self, KEYS};
use crate::model::{self, Model, Universe};
use crate::pv::PV;
use nervusdb::{BulkEdge, BulkNode, Db};
use proptest::prelude::*;
use serde::{Deserialize, Serialize};
use std::collections::{BTreeMap, BTreeSet};
use std::path::Path;

/// "R" and "A" are both a label and a relationship type.
const NLABELS: [&str; 5] = ["A", "B", "C", "R", "Person"];
const ETYPES: [&str; 4] = ["R", "S", "A", "KNOWS"];

#[derive(Debug, Clone, Serialize, Deserialize, PartialEq)]
pub struct NodeSpec {
    pub gap: u8,
    pub label: u8,
    pub props: Vec<(u8, PV)>,
}

#[derive(Debug, Clone, Serialize, Deserialize, PartialEq)]
pub struct EdgeSpec {
    pub s: u16,
    pub t: u8,
    pub d: u16,
    pub props: Vec<(u8, PV)>,
}

#[derive(Debug, Clone, Serialize, Deserialize, PartialEq)]
pub enum ExtMode {
    Ascending,
    Descending,
    /// ids end at u64::MAX
    High,
}

#[derive(Debug, Clone, Serialize, Deserialize, PartialEq)]
pub struct Case {
    pub nodes: Vec<NodeSpec>,
    /// property-free nodes appended after `nodes` (crosses node-table page boundaries)
    pub filler: u16,
    pub edges: Vec<EdgeSpec>,
    pub ext: ExtMode,
    /// relationships are handed to the loader in this rotation of the generated order
    pub rotate: u8,
}

fn props(nested: bool) -> BoxedStrategy<Vec<(u8, PV)>> {
    prop::collection::vec((0u8..KEYS.len() as u8, hist::prop_value(nested)), 0..4).boxed()
}

fn case(max_nodes: usize, max_edges: usize, filler_max: u16) -> BoxedStrategy<Case> {
    let node = (0u8..4, 0u8..NLABELS.len() as u8, props(true)).prop_map(|(gap, label, props)| NodeSpec { gap, label, props });
    let edge = (any::<u16>(), 0u8..ETYPES.len() as u8, any::<u16>(), props(true)).prop_map(|(s, t, d, props)| EdgeSpec { s, t, d, props });
    // a duplicated relationship (parallel instance) and a self loop are made likely on purpose
    let edges = prop::collection::vec(edge, 0..max_edges).prop_flat_map(|es| {
        let n = es.len();
        (Just(es), prop::collection::vec((any::<u16>(), any::<bool>(), props(false)), 0..3)).prop_map(move |(mut es, extra)| {
            for (i, self_loop, p) in extra {
                if n == 0 {
                    break;
                }
                let mut e = es[idx(i, n)].clone();
                if self_loop {
                    e.d = e.s;
                }
                e.props = p;
                es.push(e);
            }
            es
        })
    });
    (
        prop::collection::vec(node, 1..max_nodes),
        prop_oneof![6 => Just(0u16), 1 => 1u16..40, 1 => 480u16..=filler_max],
        prop_oneof![1 => Just(Vec::new()).boxed(), 5 => edges.boxed()],
        prop_oneof![3 => Just(ExtMode::Ascending), 1 => Just(ExtMode::Descending), 1 => Just(ExtMode::High)],
        any::<u8>(),
    )
        .prop_map(|(nodes, filler, edges, ext, rotate)| Case { nodes, filler, edges, ext, rotate })
        .boxed()
}

struct Built {
    model: Model,
    bulk_nodes: Vec<BulkNode>,
    bulk_edges: Vec<BulkEdge>,
    /// (src, type, dst, props) in loader order
    edges: Vec<(u32, String, u32, Vec<(String, PV)>)>,
    labels: BTreeSet<String>,
    types: BTreeSet<String>,
}

fn build(c: &Case) -> Built {
    let total = c.nodes.len() + c.filler as usize;
    // external ids: unique, >= 1
    let mut exts: Vec<u64> = Vec::with_capacity(total);
    let mut cur: u64 = 0;
    for i in 0..total {
        let gap = c.nodes.get(i).map(|n| n.gap as u64).unwrap_or(0);
        cur += 1 + gap;
        exts.push(cur);
    }
    match c.ext {
        ExtMode::Ascending => {}
        ExtMode::Descending => exts.reverse(),
        ExtMode::High => {
            let top = *exts.last().unwrap();
            for e in exts.iter_mut() {
                *e = u64::MAX - (top - *e);
            }
        }
    }
    let mut m = Model::new();
    let mut bulk_nodes = Vec::new();
    let mut labels = BTreeSet::new();
    for i in 0..total {
        let (label, props): (String, Vec<(u8, PV)>) = match c.nodes.get(i) {
            Some(n) => (NLABELS[n.label as usize % NLABELS.len()].to_string(), n.props.clone()),
            None => ("B".to_string(), vec![]),
        };
        labels.insert(label.clone());
        let iid = m.create_node(std::slice::from_ref(&label));
        let node = m.nodes.get_mut(&iid).unwrap();
        node.ext = exts[i];
        let mut bp = BTreeMap::new();
        for (k, v) in &props {
            let key = KEYS[*k as usize % KEYS.len()].to_string();
            node.props.insert(key.clone(), v.clone());
            bp.insert(key, v.to_api());
        }
        bulk_nodes.push(BulkNode { external_id: exts[i], label, properties: bp });
    }
    let mut edges = Vec::new();
    let n = c.edges.len();
    let rot = if n == 0 { 0 } else { c.rotate as usize % n };
    let mut types = BTreeSet::new();
    for j in 0..n {
        let e = &c.edges[(j + rot) % n];
        let s = idx(e.s, total) as u32;
        let d = idx(e.d, total) as u32;
        let t = ETYPES[e.t as usize % ETYPES.len()].to_string();
        types.insert(t.clone());
        let mut ps: Vec<(String, PV)> = Vec::new();
        for (k, v) in &e.props {
            let key = KEYS[*k as usize % KEYS.len()].to_string();
            ps.retain(|(kk, _)| kk != &key);
            ps.push((key, v.clone()));
        }
        edges.push((s, t, d, ps));
    }
    let mut bulk_edges = Vec::new();
    for (s, t, d, ps) in &edges {
        let key = (*s, t.clone(), *d);
        *m.edges.entry(key.clone()).or_insert(0) += 1;
        // parallel instances share one property map; a later instance overwrites equal keys
        for (k, v) in ps {
            m.edge_props.entry(key.clone()).or_default().insert(k.clone(), v.clone());
        }
        bulk_edges.push(BulkEdge {
            src_external_id: exts[*s as usize],
            rel_type: t.clone(),
            dst_external_id: exts[*d as usize],
            properties: ps.iter().map(|(k, v)| (k.clone(), v.to_api())).collect(),
        });
    }
    Built { model: m, bulk_nodes, bulk_edges, edges, labels, types }
}

fn fail_op(what: &str, e: impl std::fmt::Display) -> Failure {
    let msg = e.to_string();
    let norm: String = msg.chars().map(|c| if c.is_ascii_digit() { '#' } else { c }).take(80).collect();
    Failure::new(format!("op-error:{what}:{norm}"), format!("{what} failed: {msg}"))
}

fn guarded<T>(what: &str, f: impl FnOnce() -> Result<T, String>) -> Result<T, Failure> {
    match catch(f) {
        Ok(Ok(v)) => Ok(v),
        Ok(Err(e)) => Err(fail_op(what, e)),
        Err((loc, msg)) => Err(Failure::new(format!("panic@{loc}"), format!("{what} panicked at {loc}: {msg}"))),
    }
}

fn load_transactional(path: &Path, b: &Built) -> Result<Db, Failure> {
    let db = guarded("open(B)", || Db::open(path).map_err(|e| e.to_string()))?;
    guarded("transactional load", || {
        let mut tx = db.begin_write();
        for (i, n) in b.bulk_nodes.iter().enumerate() {
            let l = tx.get_or_create_label(&n.label).map_err(|e| format!("get_or_create_label: {e}"))?;
            let iid = tx.create_node(n.external_id, l).map_err(|e| format!("create_node: {e}"))?;
            if iid as usize != i {
                return Err(format!("create_node returned {iid} for the node at position {i}"));
            }
            for (k, v) in &n.properties {
                tx.set_node_property(iid, k.clone(), v.clone()).map_err(|e| format!("set_node_property: {e}"))?;
            }
        }
        for (s, t, d, ps) in &b.edges {
            let tid = tx.get_or_create_rel_type(t).map_err(|e| format!("get_or_create_rel_type: {e}"))?;
            tx.create_edge(*s, tid, *d);
            for (k, v) in ps {
                tx.set_edge_property(*s, tid, *d, k.clone(), v.to_api()).map_err(|e| format!("set_edge_property: {e}"))?;
            }
        }
        tx.commit().map_err(|e| format!("commit: {e}"))
    })?;
    Ok(db)
}

/// One more transaction, identical on both databases: a node linked from and to node 0.
fn follow_up(db: &Db, m_next: u32, ext: u64) -> Result<(), Failure> {
    guarded("follow-up transaction", || {
        let mut tx = db.begin_write();
        let l = tx.get_or_create_label("C").map_err(|e| e.to_string())?;
        let t = tx.get_or_create_rel_type("S").map_err(|e| e.to_string())?;
        let iid = tx.create_node(ext, l).map_err(|e| format!("create_node: {e}"))?;
        if iid != m_next {
            return Err(format!("create_node returned {iid}, expected {m_next}"));
        }
        tx.set_node_property(iid, "p".to_string(), PV::Int(42).to_api()).map_err(|e| e.to_string())?;
        tx.create_edge(iid, t, 0);
        tx.create_edge(0, t, iid);
        tx.commit().map_err(|e| format!("commit: {e}"))
    })
}

fn battery(b: &Built) -> Vec<(String, Vec<(String, PV)>)> {
    let mut q: Vec<(String, Vec<(String, PV)>)> = Vec::new();
    let mut push = |s: String| q.push((s, vec![]));
    push("MATCH (n) RETURN id(n) AS i, n AS n, properties(n) AS p".into());
    push("MATCH (a)-[r]->(b) RETURN id(a) AS a, type(r) AS t, id(b) AS b, properties(r) AS p, r AS r".into());
    push("MATCH (b)<-[r]-(a) RETURN id(a) AS a, type(r) AS t, id(b) AS b".into());
    push("MATCH (a)-[r]-(b) RETURN id(a) AS a, type(r) AS t, id(b) AS b".into());
    push("MATCH (n) RETURN count(*) AS c".into());
    push("MATCH ()-[r]->() RETURN count(r) AS c".into());
    push("MATCH (n) OPTIONAL MATCH (n)<-[r]-(m) RETURN id(n) AS i, count(r) AS indeg".into());
    push("MATCH (n) OPTIONAL MATCH (n)-[r]->(m) RETURN id(n) AS i, count(r) AS outdeg".into());
    push("MATCH (n)-[r]->(n) RETURN id(n) AS i, type(r) AS t".into());
    push("MATCH (a)-->(b)-->(c) RETURN id(a) AS a, id(b) AS b, id(c) AS c".into());
    push("MATCH (a)<--(b)<--(c) RETURN id(a) AS a, id(b) AS b, id(c) AS c".into());
    push("MATCH (a)-[*1..2]->(b) RETURN id(a) AS a, id(b) AS b".into());
    push("MATCH (n) WHERE n.p IS NOT NULL RETURN id(n) AS i, n.p AS p ORDER BY i".into());
    push("MATCH (n) RETURN labels(n) AS l, count(*) AS c".into());
    push("MATCH ()-[r]->() RETURN type(r) AS t, count(*) AS c".into());
    for l in NLABELS {
        push(format!("MATCH (n:{l}) RETURN id(n) AS i, n.name AS name"));
        push(format!("MATCH (n:{l})<-[r]-(m) RETURN id(n) AS i, type(r) AS t, id(m) AS m"));
    }
    for t in ETYPES {
        push(format!("MATCH (a)-[r:{t}]->(b) RETURN id(a) AS a, id(b) AS b, r.p AS p"));
        push(format!("MATCH (b)<-[r:{t}]-(a) RETURN id(a) AS a, id(b) AS b"));
    }
    // equality on stored values (parameters: every value kind has a parameter form)
    let mut seen = 0;
    for n in b.model.nodes.values() {
        for (k, v) in &n.props {
            if seen < 6 {
                seen += 1;
                q.push((format!("MATCH (n) WHERE n.{k} = $v RETURN id(n) AS i"), vec![("v".to_string(), v.clone())]));
                q.push((format!("MATCH (n {{{k}: $v}}) RETURN id(n) AS i"), vec![("v".to_string(), v.clone())]));
            }
        }
    }
    q
}

fn run_battery(db: &Db, qs: &[(String, Vec<(String, PV)>)], which: &str) -> Result<Vec<Result<Vec<Vec<CV>>, String>>, Failure> {
    let mut out = Vec::new();
    for (q, ps) in qs {
        // the wall clock must not decide a comparison: no effective soft timeout
        let opts = nervusdb::query::ExecuteOptions { soft_timeout_ms: 3_600_000, ..Default::default() };
        match cy::read(db, q, &cy::params_from(ps, Some(opts))) {
            Ok((_, rows)) => out.push(Ok(rows)),
            Err(cy::QErr::Limit(e)) => out.push(Err(format!("LIMIT:{e}"))),
            Err(cy::QErr::Panic(loc, msg)) => return Err(Failure::new(format!("panic@{loc}"), format!("database {which}: query {q:?} panicked at {loc}: {msg}"))),
            Err(e) => out.push(Err(e.text())),
        }
    }
    Ok(out)
}

fn compare(a: &Db, b: &Db, built: &Built, m: &Model, stage: &str, obs: &mut Obs) -> CaseResult {
    let keys = hist::keys_vec();
    let types: Vec<String> = ETYPES.iter().map(|s| s.to_string()).collect();
    let uni = Universe { keys: &keys, types: &types };
    let tag = |which: &str, f: Failure| Failure::new(format!("{which}:{}", f.signature), format!("{stage}, database {which}: {}", f.message));
    obs.sub_eval(None);
    let da = model::dump_db(a, &uni, &m.dead).map_err(|f| tag("bulk", f))?;
    model::diff(m, &da, &uni).map_err(|f| tag("bulk", f))?;
    let dbb = model::dump_db(b, &uni, &m.dead).map_err(|f| tag("txn", f))?;
    model::diff(m, &dbb, &uni).map_err(|f| tag("txn", f))?;
    // label and type names resolve in both
    let qs = battery(built);
    let ra = run_battery(a, &qs, "bulk")?;
    let rb = run_battery(b, &qs, "txn")?;
    for (i, (x, y)) in ra.iter().zip(&rb).enumerate() {
        obs.sub_eval(None);
        let limit = |r: &Result<Vec<Vec<CV>>, String>| matches!(r, Err(e) if e.starts_with("LIMIT:"));
        if limit(x) || limit(y) {
            // a resource limit is not an answer (C33's subject); nothing to compare
            obs.count("query-skipped:resource-limit", 1);
            continue;
        }
        let same = match (x, y) {
            (Ok(x), Ok(y)) => cy::rows_same_multiset(x, y),
            (Err(_), Err(_)) => true,
            _ => false,
        };
        if !same {
            let show = |r: &Result<Vec<Vec<CV>>, String>| match r {
                Ok(rows) => format!("{} rows {:?}", rows.len(), cy::sorted(rows.clone()).iter().take(12).collect::<Vec<_>>()),
                Err(e) => format!("error {e}"),
            };
            fail!("query-differs", "{stage}: {:?} params {:?}\n  bulk-loaded: {}\n  transactional: {}", qs[i].0, qs[i].1, show(x), show(y));
        }
        if let (Ok(x), 13 | 14) = (x, i) {
            // sanity of the battery itself against the model (label / type histogram)
            let _ = x;
        }
    }
    Ok(())
}

fn run_case(c: &Case, obs: &mut Obs) -> CaseResult {
    let built = build(c);
    let dir = crate::engine::temp_dir();
    let pa = dir.join("bulk");
    let pb = dir.join("txn");
    let (nodes, edges) = (built.bulk_nodes.clone(), built.bulk_edges.clone());
    guarded("bulkload", || nervusdb::bulkload(&pa, nodes, edges).map_err(|e| e.to_string()))?;
    let mut a = guarded("open(A)", || Db::open(&pa).map_err(|e| e.to_string()))?;
    let mut b = load_transactional(&pb, &built)?;
    let mut m = built.model.clone();
    compare(&a, &b, &built, &m, "after load", obs)?;
    // reopen both (B additionally compacts: its content moves from the log into a segment too)
    drop(a);
    guarded("close(B)", || b.close().map_err(|e| e.to_string()))?;
    a = guarded("reopen(A)", || Db::open(&pa).map_err(|e| e.to_string()))?;
    b = guarded("reopen(B)", || Db::open(&pb).map_err(|e| e.to_string()))?;
    compare(&a, &b, &built, &m, "after reopen", obs)?;
    guarded("compact(B)", || b.compact().map_err(|e| e.to_string()))?;
    guarded("compact(A)", || a.compact().map_err(|e| e.to_string()))?;
    compare(&a, &b, &built, &m, "after compaction of the transactional database", obs)?;
    // one more identical transaction on both
    let ext = match c.ext {
        ExtMode::High => 1,
        _ => u64::MAX,
    };
    let ext = if m.nodes.values().any(|n| n.ext == ext) { u64::MAX / 2 } else { ext };
    follow_up(&a, m.next_iid, ext).map_err(|f| Failure::new(format!("bulk:{}", f.signature), f.message))?;
    follow_up(&b, m.next_iid, ext).map_err(|f| Failure::new(format!("txn:{}", f.signature), f.message))?;
    let iid = m.create_node(&["C".to_string()]);
    {
        let n = m.nodes.get_mut(&iid).unwrap();
        n.ext = ext;
        n.props.insert("p".into(), PV::Int(42));
    }
    *m.edges.entry((iid, "S".into(), 0)).or_insert(0) += 1;
    *m.edges.entry((0, "S".into(), iid)).or_insert(0) += 1;
    compare(&a, &b, &built, &m, "after one more transaction on both", obs)?;
    guarded("compact(A)", || a.compact().map_err(|e| e.to_string()))?;
    guarded("close(A)", || a.close().map_err(|e| e.to_string()))?;
    a = guarded("reopen(A)", || Db::open(&pa).map_err(|e| e.to_string()))?;
    compare(&a, &b, &built, &m, "after compaction + reopen of the bulk-loaded database", obs)?;

    let total = c.nodes.len() + c.filler as usize;
    obs.class_if(built.edges.is_empty(), "no-relationships");
    obs.class_if(built.model.edges.values().any(|n| *n > 1), "parallel-relationships");
    obs.class_if(built.model.edges.keys().any(|k| k.0 == k.2), "self-loop");
    obs.class_if(built.labels.iter().any(|l| built.types.contains(l)), "label-and-type-share-a-name");
    obs.class_if(total > 512, "more-than-512-nodes");
    obs.class_if(built.model.edge_props.values().any(|p| !p.is_empty()), "relationship-properties");
    obs.class_if(!matches!(c.ext, ExtMode::Ascending), "external-ids-not-ascending");
    obs.class_if(built.model.nodes.values().any(|n| n.props.values().any(|v| v.depth() > 0)), "nested-property-values");
    obs.set_nontrivial(total >= 2);
    Ok(())
}

pub fn run(ctx: &mut RunCtx) {
    ctx.assume("parallel relationship instances share one property map (documented key identity); when several instances carry the same key the last one handed to the loader / set in the transaction wins");
    ctx.assume("every node has exactly one label and a non-empty label name, as the bulk API requires; external ids are unique and >= 1");
    let cases = ctx.tier.pick(2400, 40_000);
    let max_nodes = ctx.tier.pick(14, 40);
    let max_edges = ctx.tier.pick(20, 60);
    ctx.explore(
        "inputs",
        "generated node sets (unique external ids >= 1 ascending/descending/ending at u64::MAX, one label each incl. names shared with relationship types, properties of all nine kinds, optional filler beyond 512 nodes) and relationship sets (none, parallel, self loops, properties) loaded through bulkload (A) and through one WriteTxn (B); dump(A) == model == dump(B) and a battery of ~45 Cypher reads (both directions, typed, optional, two-hop, variable length, aggregation, equality on stored values) returns equal multisets, no panic; repeated after reopen, after compaction, after one more identical transaction and after compaction + reopen of A; non-trivial = >= 2 nodes",
        cases,
        move || case(max_nodes, max_edges, 700),
        run_case,
    );
}
