//! C21 Aggregates agree with their definitions.
//!
//! `UNWIND <rows> AS r WITH r[0] AS k, r[1] AS v, r[2] AS w RETURN k, count(*), count(v),
//! sum(v), avg(v), min(v), max(v), collect(v), count(w), min(w), max(w), collect(w),
//! count(DISTINCT w), collect(DISTINCT w), sum(DISTINCT v), count(DISTINCT v)` plus the
//! in-language rewrites `reduce(s = 0, x IN collect(v) | s + x)` and `size(collect(w))`.
//! `v` is numeric or null (integers near the 64-bit limits so that partial sums overflow,
//! floats, rarely NaN/inf), `w` is any value, `k` a grouping key. Every aggregate is compared
//! with a direct fold in the harness (i128 sums, exact Int/Float order for min/max).
use super::exprlib::{self as xl, Binder};
use crate::cy::{self, CV, QErr};
use crate::engine::{CaseResult, Failure, Obs, RunCtx, idx};
use crate::pv::PV;
use proptest::prelude::*;
use serde::{Deserialize, Serialize};
use std::cmp::Ordering;

#[derive(Debug, Clone, Serialize, Deserialize)]
pub struct AggCase {
    /// (key, numeric-or-null value, any value)
    rows: Vec<(PV, PV, PV)>,
    keyed: bool,
    lit: bool,
    /// set by the generator when temporal-looking strings were rewritten (exclusion by construction)
    #[serde(default)]
    rewritten: bool,
}

fn agg_int() -> BoxedStrategy<i64> {
    prop_oneof![
        4 => (prop::sample::select(vec![i64::MAX, i64::MIN, 1i64 << 62, -(1i64 << 62), (1i64 << 62) + (1i64 << 61), 1i64 << 53, 0]), -3i64..=3).prop_map(|(b, d)| b.saturating_add(d)),
        4 => -10i64..=10,
        1 => any::<i64>(),
    ]
    .boxed()
}

fn agg_float() -> BoxedStrategy<f64> {
    prop_oneof![
        5 => (-1000i32..1000).prop_map(|i| i as f64 / 4.0),
        3 => -1.0e6f64..1.0e6,
        2 => agg_int().prop_map(|i| i as f64),
        1 => prop::sample::select(vec![f64::NAN, f64::INFINITY, f64::NEG_INFINITY, f64::MAX, -f64::MAX, -0.0, 0.0, 5e-324, 1e300]),
    ]
    .boxed()
}

fn num_or_null(float_w: u32) -> BoxedStrategy<PV> {
    prop_oneof![
        2 => Just(PV::Null),
        8 => agg_int().prop_map(PV::Int),
        float_w => agg_float().prop_map(PV::f),
    ]
    .boxed()
}

/// Keys whose distinctness is unambiguous: no floats anywhere.
fn plain_key() -> BoxedStrategy<PV> {
    let atom = prop_oneof![
        2 => Just(PV::Null),
        2 => any::<bool>().prop_map(PV::Bool),
        4 => (-2i64..3).prop_map(PV::Int),
        1 => prop::sample::select(vec![i64::MAX, i64::MIN, 1i64 << 53, (1i64 << 53) + 1]).prop_map(PV::Int),
        4 => prop::sample::select(vec!["", "a", "b", "A", "ab", "1", "true", "null"]).prop_map(|s| PV::Str(s.to_string())),
    ];
    prop_oneof![
        6 => atom.clone(),
        2 => prop::collection::vec(atom.clone(), 0..3).prop_map(PV::List),
        1 => prop::collection::btree_map(prop::sample::select(vec!["a", "b"]).prop_map(|s| s.to_string()), atom, 0..3).prop_map(PV::Map),
    ]
    .boxed()
}

/// Keys where Cypher equivalence and type-strict identity disagree (1 vs 1.0, NaN, -0.0).
fn ambiguous_key() -> BoxedStrategy<PV> {
    prop_oneof![
        prop::sample::select(vec![PV::Int(1), PV::f(1.0), PV::f(f64::NAN), PV::f(0.0), PV::f(-0.0), PV::Int(0), PV::Null, PV::f(0.5)]),
        prop::sample::select(vec![PV::Int(1), PV::f(1.0), PV::f(f64::NAN)]).prop_map(|v| PV::List(vec![v])),
    ]
    .boxed()
}

fn strategy(excl_temporal: bool) -> impl Strategy<Value = AggCase> {
    let keys = prop_oneof![
        6 => prop::collection::vec(plain_key(), 2..4),
        1 => prop::collection::vec(plain_key(), 1..2),
        1 => prop::collection::vec(ambiguous_key(), 1..4),
    ];
    // some cases integer-only (so that sum stays integral and can overflow), some mixed
    let float_w = prop_oneof![Just(0u32), Just(0u32), Just(3u32), Just(8u32)];
    (keys, float_w, prop::bool::weighted(0.75), any::<bool>()).prop_flat_map(move |(keys, fw, keyed, lit)| {
        let row = (any::<u16>(), num_or_null(fw), prop_oneof![3 => xl::hard_value(), 2 => num_or_null(4), 1 => Just(PV::Null)]);
        prop::collection::vec(row, 0..14).prop_map(move |rs| {
            let mut rows: Vec<(PV, PV, PV)> = rs.into_iter().map(|(k, v, w)| (keys[idx(k, keys.len())].clone(), v, w)).collect();
            let mut rewritten = false;
            if excl_temporal {
                for r in rows.iter_mut() {
                    rewritten |= xl::detemporalize(&mut r.0);
                    rewritten |= xl::detemporalize(&mut r.2);
                }
            }
            AggCase { rows, keyed, lit, rewritten }
        })
    })
}

const AGGS: &[&str] = &[
    "count(*)",                                  // 0
    "count(v)",                                  // 1
    "sum(v)",                                    // 2
    "avg(v)",                                    // 3
    "min(v)",                                    // 4
    "max(v)",                                    // 5
    "collect(v)",                                // 6
    "count(w)",                                  // 7
    "min(w)",                                    // 8
    "max(w)",                                    // 9
    "collect(w)",                                // 10
    "count(DISTINCT w)",                         // 11
    "collect(DISTINCT w)",                       // 12
    "sum(DISTINCT v)",                           // 13
    "count(DISTINCT v)",                         // 14
    "reduce(s = 0, x IN collect(v) | s + x)",    // 15
    "size(collect(w))",                          // 16
    "avg(DISTINCT v)",                           // 17
];

fn float_has(v: &CV, pred: &dyn Fn(f64) -> bool) -> bool {
    xl::contains(v, &|x| matches!(x, CV::Float(b) if pred(f64::from_bits(*b))))
}

/// Deep identity under one of three readings of "distinct".
/// 0: Cypher equivalence (1 = 1.0, NaN = NaN, 0.0 = -0.0); 1: type- and bit-strict with NaN = NaN; 2: like 1 but NaN differs from itself.
fn ident(a: &CV, b: &CV, reading: u8) -> bool {
    match (a, b) {
        (CV::Int(_) | CV::Float(_), CV::Int(_) | CV::Float(_)) => {
            let (x, y) = (xl::num_of(a).unwrap(), xl::num_of(b).unwrap());
            if x.is_nan() || y.is_nan() {
                return x.is_nan() && y.is_nan() && reading < 2;
            }
            if reading == 0 {
                xl::num_cmp(x, y) == Some(Ordering::Equal)
            } else {
                a == b
            }
        }
        (CV::List(x), CV::List(y)) => x.len() == y.len() && x.iter().zip(y).all(|(p, q)| ident(p, q, reading)),
        (CV::Map(x), CV::Map(y)) => x.len() == y.len() && x.iter().zip(y).all(|((k1, p), (k2, q))| k1 == k2 && ident(p, q, reading)),
        (x, y) => x == y,
    }
}

fn distinct_under(vals: &[CV], reading: u8) -> Vec<CV> {
    let mut out: Vec<CV> = Vec::new();
    for v in vals {
        if !out.iter().any(|o| ident(o, v, reading)) {
            out.push(v.clone());
        }
    }
    out
}

fn as_rows(l: &[CV]) -> Vec<Vec<CV>> {
    l.iter().map(|x| vec![x.clone()]).collect()
}

fn list_of<'a>(v: &'a CV, what: &str) -> Result<&'a Vec<CV>, Failure> {
    match v {
        CV::List(l) => Ok(l),
        o => Err(Failure::new(format!("agg-wrong:{what}:type"), format!("{what} returned {}", xl::show(o)))),
    }
}

fn int_of(v: &CV, what: &str) -> Result<i64, Failure> {
    match v {
        CV::Int(i) => Ok(*i),
        o => Err(Failure::new(format!("agg-wrong:{what}:type"), format!("{what} returned {}", xl::show(o)))),
    }
}

/// Reference for sum over numeric values: Ok(None) = ambiguous (skip).
enum SumRef {
    /// exact integer total and the sum of magnitudes
    Int(i128, f64),
    /// expected float value and absolute tolerance
    Float(f64, f64),
    Nan,
    Inf(bool),
    Ambiguous,
}

fn sum_ref(vs: &[CV]) -> SumRef {
    let mut any_float = false;
    let mut int_total: i128 = 0;
    let (mut fsum, mut comp, mut mag) = (0.0f64, 0.0f64, 0.0f64);
    let (mut nan, mut pinf, mut ninf) = (false, false, false);
    for v in vs {
        match v {
            CV::Int(i) => {
                int_total += *i as i128;
                mag += (*i as f64).abs();
            }
            CV::Float(b) => {
                any_float = true;
                let f = f64::from_bits(*b);
                if f.is_nan() {
                    nan = true;
                } else if f.is_infinite() {
                    if f > 0.0 { pinf = true } else { ninf = true }
                } else {
                    // Neumaier summation
                    let t = fsum + f;
                    if fsum.abs() >= f.abs() { comp += (fsum - t) + f } else { comp += (f - t) + fsum }
                    fsum = t;
                    mag += f.abs();
                }
            }
            _ => {}
        }
    }
    if !any_float {
        return SumRef::Int(int_total, mag);
    }
    if nan || (pinf && ninf) {
        return SumRef::Nan;
    }
    if mag > 1e307 {
        return SumRef::Ambiguous; // intermediate overflow depends on the order of addition
    }
    if pinf || ninf {
        return SumRef::Inf(pinf);
    }
    let total = (fsum + comp) + int_total as f64;
    SumRef::Float(total, mag * 1e-12 + 1e-300)
}

fn check_float(got: &CV, r: &SumRef, div: f64, what: &str, desc: &dyn Fn() -> String) -> CaseResult {
    let CV::Float(b) = got else {
        fail!(format!("agg-wrong:{what}:type"), "{what} returned {} but a float is expected ({})", xl::show(got), desc());
    };
    let f = f64::from_bits(*b);
    let ok = match r {
        SumRef::Nan => f.is_nan(),
        SumRef::Inf(pos) => f.is_infinite() && (f > 0.0) == *pos,
        SumRef::Float(t, tol) => (f - t / div).abs() <= tol / div,
        SumRef::Int(t, mag) => {
            // float arithmetic on the converted operands: error relative to the magnitudes involved
            let e = *t as f64 / div;
            (f - e).abs() <= (mag * 1e-12 + 1e-300) / div
        }
        SumRef::Ambiguous => true,
    };
    if !ok {
        let want = match r {
            SumRef::Nan => "NaN".to_string(),
            SumRef::Inf(p) => format!("{}inf", if *p { "+" } else { "-" }),
            SumRef::Float(t, _) => format!("{:?}", t / div),
            SumRef::Int(t, _) => format!("{:?}", *t as f64 / div),
            SumRef::Ambiguous => String::new(),
        };
        fail!(format!("agg-wrong:{what}"), "{what} returned {f:?} but the fold gives {want} ({})", desc());
    }
    Ok(())
}

fn check_sum(got: &CV, vs: &[CV], what: &str, obs: &mut Obs, desc: &dyn Fn() -> String) -> CaseResult {
    let r = sum_ref(vs);
    match r {
        SumRef::Int(total, mag) => {
            // does any left-to-right partial sum leave the i64 range?
            let mut partial: i128 = 0;
            let mut partial_overflow = false;
            for v in vs {
                if let CV::Int(i) = v {
                    partial += *i as i128;
                    partial_overflow |= !xl::fits_i64(partial);
                }
            }
            obs.class_if(partial_overflow, "partial-sum-overflow");
            obs.class_if(!xl::fits_i64(total), "total-overflow");
            match got {
                CV::Int(i) => {
                    if *i as i128 != total {
                        let sig = if xl::fits_i64(total) { format!("agg-wrong:{what}") } else { "sum-wraps:i64".to_string() };
                        fail!(sig, "{what} returned {i} but the exact sum is {total} ({})", desc());
                    }
                    Ok(())
                }
                CV::Float(_) => {
                    if xl::fits_i64(total) && !partial_overflow {
                        fail!(format!("agg-wrong:{what}:float-without-overflow"), "{what} returned {} although no partial sum overflows (exact {total}) ({})", xl::show(got), desc());
                    }
                    check_float(got, &SumRef::Int(total, mag), 1.0, what, desc)
                }
                o => fail!(format!("agg-wrong:{what}:type"), "{what} returned {} ({})", xl::show(o), desc()),
            }
        }
        SumRef::Ambiguous => {
            obs.class("ambiguous:float-overflow-order");
            Ok(())
        }
        ref other => check_float(got, other, 1.0, what, desc),
    }
}

fn check_extreme(got: &CV, vals: &[CV], want_min: bool, what: &str, desc: &dyn Fn() -> String) -> CaseResult {
    if vals.is_empty() {
        if *got != CV::Null {
            fail!(format!("agg-wrong:{what}"), "{what} over no values returned {} ({})", xl::show(got), desc());
        }
        return Ok(());
    }
    if !vals.iter().any(|v| v.same(got)) {
        fail!(format!("agg-wrong:{what}:not-a-member"), "{what} returned {} which is not one of the group's values ({})", xl::show(got), desc());
    }
    for v in vals {
        let o = xl::ord_cmp(got, v);
        if (want_min && o == Ordering::Greater) || (!want_min && o == Ordering::Less) {
            let (a, b) = (xl::kind(got), xl::kind(v));
            let mut pair = if a <= b { format!("{a}-{b}") } else { format!("{b}-{a}") };
            if let (CV::Str(p), CV::Str(q)) = (got, v)
                && (xl::temporal_like(p) || xl::temporal_like(q))
            {
                pair.push_str(":temporal-looking");
            }
            fail!(format!("extreme-wrong:{pair}"), "{what} returned {} but the group contains {} ({})", xl::show(got), xl::show(v), desc());
        }
    }
    Ok(())
}

fn check(c: &AggCase, obs: &mut Obs) -> CaseResult {
    if c.rewritten {
        obs.excluded("temporal-looking strings rewritten (open finding extreme-wrong:string-string:temporal-looking)");
    }
    let rows: Vec<(CV, CV, CV)> = c.rows.iter().map(|(k, v, w)| (if c.keyed { CV::from_pv(k) } else { CV::Null }, CV::from_pv(v), CV::from_pv(w))).collect();
    // ---- reference grouping under the three readings of key identity
    let keys: Vec<CV> = rows.iter().map(|r| r.0.clone()).collect();
    let g0 = distinct_under(&keys, 0);
    let g1 = distinct_under(&keys, 1);
    let g2 = distinct_under(&keys, 2);
    let key_ambiguous = c.keyed && (g0.len() != g1.len() || g1.len() != g2.len() || keys.iter().any(|k| float_has(k, &|f| f == 0.0)));
    let groups: Vec<(CV, Vec<usize>)> = if c.keyed {
        g1.iter().map(|k| (k.clone(), (0..rows.len()).filter(|i| ident(&rows[*i].0, k, 1)).collect())).collect()
    } else {
        vec![(CV::Null, (0..rows.len()).collect())] // global aggregation: one group, also over no rows
    };

    let any_null = rows.iter().any(|r| r.1 == CV::Null);
    let has_int = rows.iter().any(|r| matches!(r.1, CV::Int(_)));
    let has_float = rows.iter().any(|r| matches!(r.1, CV::Float(_)));
    let mut any_overflow = false;
    for (_, ix) in &groups {
        let mut p: i128 = 0;
        for i in ix {
            if let CV::Int(x) = rows[*i].1 {
                p += x as i128;
                any_overflow |= !xl::fits_i64(p);
            }
        }
    }
    obs.set_nontrivial(groups.len() >= 2 && any_null && (any_overflow || (has_int && has_float)));
    obs.class(if c.keyed { "grouped" } else { "global" });
    obs.class(if c.lit { "literal" } else { "parameter" });
    obs.class_if(groups.len() >= 2, "groups>=2");
    obs.class_if(any_overflow, "int-overflow");
    obs.class_if(has_int && has_float, "mixed-numeric");
    obs.class_if(!has_float && has_int, "int-only");
    obs.class_if(key_ambiguous, "ambiguous:grouping-key");
    obs.class_if(rows.is_empty(), "empty-input");
    obs.class_if(rows.iter().any(|r| float_has(&r.1, &|f| !f.is_finite())), "nonfinite-value");

    // ---- query
    let mut bd = Binder::new(c.lit);
    let list = bd.bind(&PV::List(c.rows.iter().map(|(k, v, w)| PV::List(vec![k.clone(), v.clone(), w.clone()])).collect()));
    let aggs: Vec<String> = AGGS.iter().enumerate().map(|(i, a)| format!("{a} AS c{}", i + 1)).collect();
    let q = format!("UNWIND {list} AS r WITH r[0] AS k, r[1] AS v, r[2] AS w RETURN {}{}", if c.keyed { "k AS c0, " } else { "" }, aggs.join(", "));
    let out = match xl::run(&q, &bd) {
        Ok((_, rows)) => rows,
        Err(QErr::Panic(l, m)) => fail!(format!("panic@{l}"), "panic at {l}: {m} in {q} params={:?}", bd.params),
        Err(e) => fail!("query-error", "{} in {q} params={:?}", e.text(), bd.params),
    };
    let ctxt = |extra: String| format!("{extra}\n query: {q}\n params: {:?}", bd.params);
    let off = if c.keyed { 1 } else { 0 };
    for r in &out {
        if r.len() != AGGS.len() + off {
            fail!("shape", "row with {} columns{}", r.len(), ctxt(String::new()));
        }
    }
    // ---- one row per distinct key; count(*) partitions the input
    let total: i64 = out.iter().map(|r| if let CV::Int(i) = r[off] { i } else { -1 }).sum();
    if !c.keyed {
        if out.len() != 1 {
            fail!("group-rows:global", "global aggregation returned {} rows{}", out.len(), ctxt(String::new()));
        }
    } else if rows.is_empty() {
        if !out.is_empty() {
            fail!("group-rows:empty-input", "grouped aggregation over no rows returned {} rows{}", out.len(), ctxt(String::new()));
        }
        return Ok(());
    }
    if total != rows.len() as i64 {
        fail!("count-star-partition", "count(*) over all result rows sums to {total}, input has {} rows{}", rows.len(), ctxt(String::new()));
    }
    if key_ambiguous {
        let (lo, hi) = (g0.len().min(g2.len()), rows.len());
        if out.len() < lo || out.len() > hi {
            fail!("group-rows:count", "{} result rows for between {lo} and {hi} distinct keys{}", out.len(), ctxt(String::new()));
        }
        return Ok(()); // group contents depend on the reading
    }
    if out.len() != groups.len() {
        fail!("group-rows:count", "{} result rows but {} distinct grouping keys{}", out.len(), groups.len(), ctxt(String::new()));
    }
    for (key, ix) in &groups {
        let hits: Vec<&Vec<CV>> = if c.keyed { out.iter().filter(|r| ident(&r[0], key, 1)).collect() } else { out.iter().collect() };
        if hits.len() != 1 {
            fail!("group-rows:per-key", "{} result rows for grouping key {}{}", hits.len(), xl::show(key), ctxt(String::new()));
        }
        let r = &hits[0][off..];
        let vs: Vec<CV> = ix.iter().map(|i| rows[*i].1.clone()).filter(|v| *v != CV::Null).collect();
        let ws: Vec<CV> = ix.iter().map(|i| rows[*i].2.clone()).filter(|v| *v != CV::Null).collect();
        let d = || ctxt(format!("\n group key {} values v={} w={}", xl::show(key), xl::show(&CV::List(vs.clone())), xl::show(&CV::List(ws.clone()))));
        obs.sub_eval(None);
        // counts
        for (col, want, what) in [(0usize, ix.len(), "count(*)"), (1, vs.len(), "count(v)"), (7, ws.len(), "count(w)"), (16, ws.len(), "size(collect(w))")] {
            let got = int_of(&r[col], what)?;
            if got != want as i64 {
                fail!(format!("agg-wrong:{what}"), "{what} returned {got}, the group has {want}{}", d());
            }
        }
        // sum / avg
        check_sum(&r[2], &vs, "sum(v)", obs, &d)?;
        if vs.is_empty() {
            if r[3] != CV::Null {
                fail!("agg-wrong:avg(v)", "avg over no values returned {}{}", xl::show(&r[3]), d());
            }
        } else {
            let sr = sum_ref(&vs);
            if matches!(sr, SumRef::Ambiguous) || matches!(sr, SumRef::Int(_, m) if m > 1e307) {
                obs.class("ambiguous:float-overflow-order");
            } else {
                check_float(&r[3], &sr, vs.len() as f64, "avg(v)", &d)?;
            }
        }
        // min / max
        check_extreme(&r[4], &vs, true, "min(v)", &d)?;
        check_extreme(&r[5], &vs, false, "max(v)", &d)?;
        check_extreme(&r[8], &ws, true, "min(w)", &d)?;
        check_extreme(&r[9], &ws, false, "max(w)", &d)?;
        // collect
        for (col, vals, what) in [(6usize, &vs, "collect(v)"), (10, &ws, "collect(w)")] {
            let got = list_of(&r[col], what)?;
            if !cy::rows_same_multiset(&as_rows(got), &as_rows(vals)) {
                fail!(format!("agg-wrong:{what}"), "{what} returned {} {}", xl::show(&r[col]), d());
            }
        }
        // DISTINCT variants under the readings of identity
        for (vals, ccol, lcol, name) in [(&ws, 11usize, Some(12usize), "w"), (&vs, 14, None, "v")] {
            let (d0, d1, d2) = (distinct_under(vals, 0), distinct_under(vals, 1), distinct_under(vals, 2));
            let zero = vals.iter().any(|v| float_has(v, &|f| f == 0.0));
            let got = int_of(&r[ccol], "count(DISTINCT)")?;
            if d0.len() == d1.len() && d1.len() == d2.len() && !zero {
                if got != d1.len() as i64 {
                    fail!(format!("agg-wrong:count(DISTINCT {name})"), "count(DISTINCT {name}) returned {got}, the group has {} distinct values{}", d1.len(), d());
                }
                if let Some(lc) = lcol {
                    let l = list_of(&r[lc], "collect(DISTINCT)")?;
                    if !cy::rows_same_multiset(&as_rows(l), &as_rows(&d1)) {
                        fail!(format!("agg-wrong:collect(DISTINCT {name})"), "collect(DISTINCT {name}) returned {}{}", xl::show(&r[lc]), d());
                    }
                } else {
                    check_sum(&r[13], &d1, "sum(DISTINCT v)", obs, &d)?;
                    // avg(DISTINCT v): the mean of the distinct values (identity decided on the
                    // values themselves, not on their float conversions)
                    if d1.is_empty() {
                        if r[17] != CV::Null {
                            fail!("agg-wrong:avg(DISTINCT v)", "avg(DISTINCT) over no values returned {}{}", xl::show(&r[17]), d());
                        }
                    } else {
                        let sr = sum_ref(&d1);
                        if matches!(sr, SumRef::Ambiguous) || matches!(sr, SumRef::Int(_, m) if m > 1e307) {
                            obs.class("ambiguous:float-overflow-order");
                        } else {
                            obs.class_if(d1.len() < vals.len(), "avg-distinct-with-duplicates");
                            check_float(&r[17], &sr, d1.len() as f64, "avg(DISTINCT v)", &d)?;
                        }
                    }
                }
            } else {
                obs.class("ambiguous:distinct-identity");
                if (got as usize) < d0.len() || (got as usize) > vals.len() {
                    fail!(format!("agg-wrong:count(DISTINCT {name})"), "count(DISTINCT {name}) returned {got}, outside every reading [{}, {}]{}", d0.len(), vals.len(), d());
                }
            }
        }
        // rewrite: sum(v) against the in-language fold over collect(v)
        match (&r[2], &r[15]) {
            (CV::Int(a), CV::Int(b)) => {
                if a != b {
                    fail!("rewrite:sum-vs-reduce", "sum(v) = {a} but reduce(+) over collect(v) = {b}{}", d());
                }
            }
            (a, b) => {
                let fa = match a {
                    CV::Int(i) => *i as f64,
                    CV::Float(x) => f64::from_bits(*x),
                    _ => f64::NAN,
                };
                let fb = match b {
                    CV::Int(i) => *i as f64,
                    CV::Float(x) => f64::from_bits(*x),
                    _ => f64::NAN,
                };
                let mag: f64 = vs.iter().map(|v| match v {
                    CV::Int(i) => (*i as f64).abs(),
                    CV::Float(x) => f64::from_bits(*x).abs(),
                    _ => 0.0,
                }).sum();
                let ok = (fa.is_nan() && fb.is_nan()) || fa == fb || (fa - fb).abs() <= mag * 1e-12 || !mag.is_finite() || mag > 1e307;
                if !ok {
                    fail!("rewrite:sum-vs-reduce", "sum(v) = {} but reduce(+) over collect(v) = {}{}", xl::show(a), xl::show(b), d());
                }
            }
        }
    }
    Ok(())
}

pub fn run(ctx: &mut RunCtx) {
    ctx.assume("sum of integers: exact (i128) total as an integer when it fits; a float is accepted only if the total or a partial sum in row order leaves the i64 range (the documented overflow rule); a wrapped integer is never accepted. sum/avg with floats: within 1e-12 * sum|x| of a compensated sum; cases whose float additions can overflow depending on order are counted as ambiguous");
    ctx.assume("min/max follow the orderability of ORDER BY (exact numeric comparison, NaN above all numbers); ties may return any member of the tie group");
    ctx.assume("grouping keys / DISTINCT identity: checked strictly only where Cypher equivalence, type-strict identity and NaN<>NaN agree (no 1 vs 1.0, NaN, signed zeros); otherwise any count between the readings is accepted (class ambiguous:*)");
    let excl_temporal = ctx.has_open("extreme-wrong:string-string:temporal-looking");
    ctx.explore(
        "aggregates",
        "0-13 rows (key, numeric-or-null v, any-or-null w) over 1-3 keys, grouped or global, 17 aggregate columns per query; non-trivial = >=2 groups, >=1 null v, and an integer partial-sum overflow or int+float mix",
        ctx.tier.pick(320_000, 18_000_000),
        move || strategy(excl_temporal),
        check,
    );
}
