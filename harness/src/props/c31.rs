//! C31 Vector search is sound and durable.
//!
//! `NERVUSDB_HNSW_M` is read from the process environment by `Db::open`, so every value of
//! M gets its own section: the variable is set on the main thread before the section's
//! shard threads exist and is not touched while they run.
use crate::engine::{CaseResult, Failure, Obs, RunCtx, catch, fp, idx};
use nervusdb::Db;
use proptest::prelude::*;
use serde::{Deserialize, Serialize};
use std::collections::{BTreeMap, BTreeSet};
use std::path::Path;

#[derive(Debug, Clone, Serialize, Deserialize, PartialEq)]
pub enum VOp {
    /// one committed transaction creating `n` nodes without vectors
    Create { n: u8 },
    /// one committed transaction creating one node per vector and storing the vector
    CreateWith { vs: Vec<Vec<f32>> },
    /// one committed transaction storing vectors for existing live nodes (re-insertion included)
    Set { items: Vec<(u16, Vec<f32>)> },
    /// `count` new nodes with vectors derived from `seed`, `per_tx` of them per transaction
    Many { count: u8, seed: u16, per_tx: u8 },
    Delete { n: u16 },
    Search { q: Vec<f32>, k: u8 },
    /// query = the stored vector of an indexed node
    SearchAt { n: u16, k: u8 },
    Reopen { close: bool },
    Compact,
}

#[derive(Debug, Clone, Serialize, Deserialize, PartialEq)]
pub struct Case {
    pub dim: u8,
    pub ops: Vec<VOp>,
}

pub fn coord() -> BoxedStrategy<f32> {
    prop_oneof![
        5 => (-3i8..=3).prop_map(|i| i as f32),
        2 => (-800i16..=800).prop_map(|i| i as f32 / 8.0),
        3 => -100.0f32..=100.0f32,
        1 => prop::sample::select(vec![0.0f32, -0.0, 100.0, -100.0, 0.5, 1.0e-3, -1.0e-20, 99.99999, 33.333332]),
    ]
    .boxed()
}

pub fn vector(dim: usize) -> BoxedStrategy<Vec<f32>> {
    prop_oneof![
        7 => prop::collection::vec(coord(), dim),
        // a pool of five vectors (all coordinates equal): exact duplicates and distance ties
        2 => (-2i8..=2).prop_map(move |c| vec![c as f32; dim]),
        1 => prop::collection::vec(prop::sample::select(vec![0.0f32, 1.0]), dim),
    ]
    .boxed()
}

fn kk() -> BoxedStrategy<u8> {
    prop_oneof![1 => Just(0u8), 6 => 1u8..8, 3 => 8u8..80, 1 => Just(255u8)].boxed()
}

fn op(dim: usize, many_max: u8) -> BoxedStrategy<VOp> {
    prop_oneof![
        2 => (1u8..5).prop_map(|n| VOp::Create { n }),
        4 => prop::collection::vec(vector(dim), 1..5).prop_map(|vs| VOp::CreateWith { vs }),
        5 => prop::collection::vec((any::<u16>(), vector(dim)), 1..5).prop_map(|items| VOp::Set { items }),
        2 => (4u8..=many_max, any::<u16>(), 1u8..40).prop_map(|(count, seed, per_tx)| VOp::Many { count, seed, per_tx }),
        2 => any::<u16>().prop_map(|n| VOp::Delete { n }),
        4 => (vector(dim), kk()).prop_map(|(q, k)| VOp::Search { q, k }),
        3 => (any::<u16>(), kk()).prop_map(|(n, k)| VOp::SearchAt { n, k }),
        3 => any::<bool>().prop_map(|close| VOp::Reopen { close }),
        1 => Just(VOp::Compact),
    ]
    .boxed()
}

/// `big_first`: the history starts with a bulk insertion of that many vectors (range).
fn case(max_ops: usize, many_max: u8, big_first: Option<(u8, u8)>) -> BoxedStrategy<Case> {
    (1u8..=8)
        .prop_flat_map(move |dim| {
            let rest = prop::collection::vec(op(dim as usize, many_max), 1..max_ops);
            match big_first {
                None => rest.prop_map(move |ops| Case { dim, ops }).boxed(),
                Some((lo, hi)) => ((lo..=hi, any::<u16>(), 1u8..40), rest)
                    .prop_map(move |((count, seed, per_tx), mut ops)| {
                        ops.insert(0, VOp::Many { count, seed, per_tx });
                        Case { dim, ops }
                    })
                    .boxed(),
            }
        })
        .boxed()
}

/// Deterministic pseudo-random vector of the case (no RNG: a function of `seed` and `i`).
fn derived_vector(seed: u16, i: u32, dim: usize) -> Vec<f32> {
    let mut x = (((seed as u64) << 32 | (i as u64)) << 1) | 1;
    (0..dim)
        .map(|_| {
            x = x.wrapping_mul(6364136223846793005).wrapping_add(1442695040888963407);
            let r = (x >> 33) as u32 % 1601; // 0..=1600
            (r as f32 - 800.0) / 8.0
        })
        .collect()
}

#[derive(Default, Clone)]
pub struct VModel {
    pub next: u32,
    pub live: BTreeSet<u32>,
    pub dead: BTreeSet<u32>,
    /// latest vector of every node id that was ever given one
    pub vecs: BTreeMap<u32, Vec<f32>>,
    pub reinserted: bool,
}

pub fn exact(a: &[f32], b: &[f32]) -> f64 {
    a.iter().zip(b).map(|(x, y)| (*x as f64 - *y as f64).powi(2)).sum::<f64>().sqrt()
}

fn close_enough(got: f32, want: f64) -> bool {
    let g = got as f64;
    (g - want).abs() <= 1e-6 + 1e-5 * want.abs()
}

pub fn db_fail(what: &str, e: impl std::fmt::Display) -> Failure {
    let msg = e.to_string();
    let norm: String = msg.chars().map(|c| if c.is_ascii_digit() { '#' } else { c }).take(80).collect();
    Failure::new(format!("op-error:{what}:{norm}"), format!("{what} failed: {msg}"))
}

pub fn guarded<T>(what: &str, f: impl FnOnce() -> Result<T, String>) -> Result<T, Failure> {
    match catch(f) {
        Ok(Ok(v)) => Ok(v),
        Ok(Err(e)) => Err(db_fail(what, e)),
        Err((loc, msg)) => Err(Failure::new(format!("panic@{loc}"), format!("{what} panicked at {loc}: {msg}"))),
    }
}

fn open(base: &Path) -> Result<Db, Failure> {
    guarded("open", || Db::open(base).map_err(|e| e.to_string()))
}

/// One committed transaction: creates `new` nodes (ids must be dense), stores `sets`, deletes `del`.
fn commit_tx(db: &Db, m: &mut VModel, new: usize, sets: &[(u32, Vec<f32>)], del: Option<u32>) -> Result<(), Failure> {
    let first = m.next;
    guarded("transaction", || {
        let mut tx = db.begin_write();
        let label = tx.get_or_create_label("V").map_err(|e| format!("get_or_create_label: {e}"))?;
        for i in 0..new as u32 {
            let got = tx.create_node((first + i) as u64 + 1, label).map_err(|e| format!("create_node: {e}"))?;
            if got != first + i {
                return Err(format!("create_node returned id {got}, expected {}", first + i));
            }
        }
        for (n, v) in sets {
            tx.set_vector(*n, v.clone()).map_err(|e| format!("set_vector: {e}"))?;
        }
        if let Some(n) = del {
            tx.tombstone_node(n);
        }
        tx.commit().map_err(|e| format!("commit: {e}"))
    })?;
    for i in 0..new as u32 {
        m.live.insert(first + i);
    }
    m.next += new as u32;
    for (n, v) in sets {
        if m.vecs.insert(*n, v.clone()).is_some() {
            m.reinserted = true;
        }
    }
    if let Some(n) = del {
        m.live.remove(&n);
        m.dead.insert(n);
    }
    Ok(())
}

pub type Hits = Vec<(u32, f32)>;

pub fn search(db: &Db, q: &[f32], k: usize) -> Result<Hits, Failure> {
    guarded("search_vector", || db.search_vector(q, k).map_err(|e| e.to_string()))
}

/// The oracle of the property for one search result.
pub fn check_hits(m: &VModel, hnsw_m: usize, q: &[f32], k: usize, hits: &Hits, when: &str) -> CaseResult {
    let ctx = || format!("{when}: search(q={q:?}, k={k}) = {hits:?}");
    if hits.len() > k {
        fail!("more-than-k-results", "{} returns {} results", ctx(), hits.len());
    }
    let mut seen = BTreeSet::new();
    for (id, _) in hits {
        if !seen.insert(*id) {
            fail!("duplicate-node-in-result", "{} contains node {id} twice", ctx());
        }
    }
    for (id, d) in hits {
        if m.dead.contains(id) {
            fail!("deleted-node-returned", "{} contains node {id}, which was deleted", ctx());
        }
        if !m.live.contains(id) {
            fail!("unknown-node-returned", "{} contains node {id}, which never existed", ctx());
        }
        let Some(v) = m.vecs.get(id) else {
            fail!("node-without-vector-returned", "{} contains node {id}, which has no stored vector", ctx());
        };
        let want = exact(q, v);
        if !close_enough(*d, want) {
            // which vector does the distance belong to, if any?
            fail!("distance-not-to-latest-vector", "{}: node {id} reported at distance {d}, its latest vector {v:?} is at {want}", ctx());
        }
    }
    for w in hits.windows(2) {
        if w[0].1 > w[1].1 {
            fail!("distances-not-sorted", "{}: {} before {}", ctx(), w[0].1, w[1].1);
        }
    }
    if m.vecs.len() <= 2 * hnsw_m + 1 {
        let mut all: Vec<f64> = m.vecs.iter().filter(|(id, _)| m.live.contains(id)).map(|(_, v)| exact(q, v)).collect();
        all.sort_by(|a, b| a.partial_cmp(b).unwrap());
        let want_n = k.min(all.len());
        if hits.len() != want_n {
            fail!("small-index-not-exact:count", "{}: index holds {} vectors (M={hnsw_m}), {} live; expected {want_n} results", ctx(), m.vecs.len(), all.len());
        }
        for (i, (id, _)) in hits.iter().enumerate() {
            let mine = exact(q, &m.vecs[id]);
            if (mine - all[i]).abs() > 1e-6 + 1e-5 * all[i].abs() {
                fail!("small-index-not-exact:rank", "{}: index holds {} vectors (M={hnsw_m}); result #{i} (node {id}) is at distance {mine}, brute force has {} at that rank (all: {all:?})", ctx(), m.vecs.len(), all[i]);
            }
        }
    }
    Ok(())
}

pub fn bits(h: &Hits) -> Vec<(u32, u32)> {
    h.iter().map(|(i, d)| (*i, d.to_bits())).collect()
}

fn run_case(c: &Case, hnsw_m: usize, obs: &mut Obs) -> CaseResult {
    let dim = c.dim as usize;
    let dir = crate::engine::temp_dir();
    let base = dir.join("db");
    let mut db = Some(open(&base)?);
    let mut m = VModel::default();
    // every query of the case is also a probe around each reopen
    let mut probes: Vec<(Vec<f32>, usize)> = vec![(vec![0.0; dim], 3), (vec![0.0; dim], 1000)];
    for o in &c.ops {
        if let VOp::Search { q, k } = o {
            if probes.len() < 8 {
                probes.push((q.clone(), *k as usize));
            }
        }
    }
    let mut reopened_then_searched = false;
    let mut reopened = false;
    let mut step = 0usize;
    for o in &c.ops {
        step += 1;
        let d = db.as_ref().unwrap();
        match o {
            VOp::Create { n } => commit_tx(d, &mut m, *n as usize, &[], None)?,
            VOp::CreateWith { vs } => {
                let sets: Vec<(u32, Vec<f32>)> = vs.iter().enumerate().map(|(i, v)| (m.next + i as u32, v.clone())).collect();
                commit_tx(d, &mut m, vs.len(), &sets, None)?;
            }
            VOp::Set { items } => {
                let live: Vec<u32> = m.live.iter().copied().collect();
                if live.is_empty() {
                    continue;
                }
                let sets: Vec<(u32, Vec<f32>)> = items.iter().map(|(n, v)| (live[idx(*n, live.len())], v.clone())).collect();
                commit_tx(d, &mut m, 0, &sets, None)?;
            }
            VOp::Many { count, seed, per_tx } => {
                let mut left = *count as usize;
                let per = (*per_tx).max(1) as usize;
                while left > 0 {
                    let n = left.min(per);
                    let sets: Vec<(u32, Vec<f32>)> = (0..n as u32).map(|i| (m.next + i, derived_vector(*seed, m.next + i, dim))).collect();
                    commit_tx(d, &mut m, n, &sets, None)?;
                    left -= n;
                }
            }
            VOp::Delete { n } => {
                let live: Vec<u32> = m.live.iter().copied().collect();
                if live.is_empty() {
                    continue;
                }
                let n = live[idx(*n, live.len())];
                obs.class_if(m.vecs.contains_key(&n), "delete-node-with-vector");
                commit_tx(d, &mut m, 0, &[], Some(n))?;
            }
            VOp::Search { .. } | VOp::SearchAt { .. } => {
                let (q, k) = match o {
                    VOp::Search { q, k } => (q.clone(), *k as usize),
                    VOp::SearchAt { n, k } => {
                        let ids: Vec<u32> = m.vecs.keys().copied().collect();
                        if ids.is_empty() {
                            (vec![0.0; dim], *k as usize)
                        } else {
                            (m.vecs[&ids[idx(*n, ids.len())]].clone(), *k as usize)
                        }
                    }
                    _ => unreachable!(),
                };
                let hits = search(d, &q, k)?;
                let small = m.vecs.len() <= 2 * hnsw_m + 1;
                let nt = m.vecs.len() >= 3 && reopened;
                obs.sub_eval(if nt { Some(fp(&(step, bits(&hits)))) } else { None });
                obs.class_if(small && !m.vecs.is_empty(), "search:exact-regime");
                obs.class_if(!small, "search:beyond-exact-regime");
                obs.class_if(hits.windows(2).any(|w| w[0].1 == w[1].1), "search:tie-in-result");
                obs.class_if(k == 0, "search:k=0");
                check_hits(&m, hnsw_m, &q, k, &hits, &format!("step {step}"))?;
                reopened_then_searched |= reopened;
            }
            VOp::Reopen { close } => {
                let mut before = Vec::new();
                for (q, k) in &probes {
                    let h = search(d, q, *k)?;
                    check_hits(&m, hnsw_m, q, *k, &h, &format!("step {step} (before reopen)"))?;
                    before.push(h);
                }
                let old = db.take().unwrap();
                if *close {
                    guarded("close", || old.close().map_err(|e| e.to_string()))?;
                } else {
                    drop(old);
                }
                db = Some(open(&base)?);
                let d = db.as_ref().unwrap();
                for ((q, k), b) in probes.iter().zip(&before) {
                    let h = search(d, q, *k)?;
                    obs.sub_eval(if m.vecs.len() >= 3 { Some(fp(&(step, bits(&h)))) } else { None });
                    check_hits(&m, hnsw_m, q, *k, &h, &format!("step {step} (after reopen)"))?;
                    if bits(&h) != bits(b) {
                        fail!("result-changed-by-reopen", "step {step}: search(q={q:?}, k={k}) returned {b:?} before the reopen and {h:?} after it ({} vectors indexed, M={hnsw_m})", m.vecs.len());
                    }
                }
                reopened = true;
                reopened_then_searched |= m.vecs.len() >= 3;
                obs.class("reopen");
            }
            VOp::Compact => {
                guarded("compact", || d.compact().map_err(|e| e.to_string()))?;
            }
        }
    }
    // final sweep: every indexed live node must be findable as its own nearest neighbour set member when the index is small
    let d = db.as_ref().unwrap();
    for (q, k) in &probes {
        let h = search(d, q, *k)?;
        obs.sub_eval(None);
        check_hits(&m, hnsw_m, q, *k, &h, "end of history")?;
    }
    obs.class_if(m.reinserted, "re-inserted-vector");
    obs.class_if(m.vecs.keys().any(|id| m.dead.contains(id)), "deleted-node-with-vector");
    obs.class_if(m.vecs.len() > 2 * hnsw_m + 1, "index-beyond-2M+1");
    obs.class_if(m.vecs.len() >= 64, "index>=64");
    obs.class_if(m.vecs.len() >= 200, "index>=200");
    {
        let mut vs: Vec<Vec<u32>> = m.vecs.values().map(|v| v.iter().map(|x| x.to_bits()).collect()).collect();
        let n = vs.len();
        vs.sort();
        vs.dedup();
        obs.class_if(vs.len() < n, "duplicate-vectors");
    }
    obs.set_nontrivial(m.vecs.len() >= 3 && reopened_then_searched);
    Ok(())
}

pub fn run(ctx: &mut RunCtx) {
    ctx.assume("the metric is the Euclidean (L2) distance, which is what the property states and index/vector.rs computes in f32; the reference is computed in f64 and compared with relative tolerance 1e-5 / absolute 1e-6; coordinates lie in [-100, 100]");
    ctx.assume("all vectors of one database have the same dimension (1..=8)");
    ctx.assume("HNSW level assignment is random and not controlled; every assertion holds for every level assignment");
    ctx.assume("'the index holds n vectors' counts the distinct nodes that were ever given a vector (deleted ones included: nothing removes them from the index)");
    // m40: the exact regime (<= 81 vectors) spans several leaf splits of the index's trees
    let configs: [(usize, &str); 5] = [(2, "m2"), (3, "m3"), (4, "m4"), (16, "m16"), (40, "m40")];
    for (hnsw_m, section) in configs {
        // SAFETY: no other thread reads or writes the environment here: shard threads of
        // the previous section have been joined, the watchdog thread only sleeps.
        unsafe {
            std::env::set_var("NERVUSDB_HNSW_M", hnsw_m.to_string());
            std::env::remove_var("NERVUSDB_HNSW_EF_CONSTRUCTION");
            std::env::remove_var("NERVUSDB_HNSW_EF_SEARCH");
        }
        let cases = match hnsw_m {
            40 => ctx.tier.pick(400, 6_000),
            16 => ctx.tier.pick(1000, 20_000),
            _ => ctx.tier.pick(1400, 28_000),
        };
        let max_ops = if hnsw_m == 40 { 14 } else { ctx.tier.pick(28, 60) };
        let many_max: u8 = match hnsw_m {
            40 => 12,
            16 => ctx.tier.pick(60, 250),
            _ => ctx.tier.pick(90, 250),
        };
        let rule = format!(
            "NERVUSDB_HNSW_M={hnsw_m}: generated histories of committed transactions (nodes, vectors of one dimension 1..8 with ties/duplicates, re-insertion, node deletion, bulk insertion), compaction, close/drop+reopen and searches (k from 0 to 255, query vectors generated or equal to a stored vector); every result checked for <=k, distinct ids, live nodes with a stored vector, sorted distances, distance == L2 to the node's latest vector, exact top-k while the index holds <= 2M+1 vectors, identical results around every reopen; non-trivial = >=3 vectors indexed and a search after a reopen"
        );
        let big_first = if hnsw_m == 40 { Some((30u8, 70u8)) } else { None };
        ctx.explore(section, &rule, cases, move || case(max_ops, many_max, big_first), move |c: &Case, obs: &mut Obs| run_case(c, hnsw_m, obs));
    }
}
