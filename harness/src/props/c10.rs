//! C10 Only one handle writes a database at a time.
use crate::engine::{CaseResult, Failure, Obs, RunCtx, catch};
use crate::hist::{self, Excl, Op, Profile, Runner};
use nervusdb::Db;
use proptest::prelude::*;
use serde::{Deserialize, Serialize};
use std::io::{BufRead, BufReader, Write};
use std::process::{Command, Stdio};
use std::sync::mpsc;
use std::time::Duration;

#[derive(Debug, Clone, Serialize, Deserialize)]
pub enum FirstState {
    Idle,
    MidTransaction,
    AfterCompaction,
    /// a thread keeps committing through the first handle while second opens are attempted
    Committing,
}

#[derive(Debug, Clone, Serialize, Deserialize)]
pub enum Second {
    SameProcessRust,
    SameProcessCApi,
    /// the second open happens in a child process while this process holds the first handle
    ChildOpens,
    /// a child process holds the first handle, this process attempts the second open
    ChildHolds,
}

#[derive(Debug, Clone, Serialize, Deserialize)]
pub struct Case {
    ops: Vec<Op>,
    state: FirstState,
    second: Second,
}

#[derive(Debug, PartialEq)]
enum Attempt {
    Refused(String),
    Blocked,
    Opened,
}

const GUARD: Duration = Duration::from_millis(1500);

fn try_open_in_thread(base: std::path::PathBuf, capi: bool) -> Attempt {
    let (tx, rx) = mpsc::channel();
    std::thread::spawn(move || {
        let r = if capi {
            crate::capi_util::CDb::open(&base).map(|db| {
                let _ = db.close();
            }).map_err(|e| e.to_string())
        } else {
            Db::open(&base).map(drop).map_err(|e| e.to_string())
        };
        let _ = tx.send(r);
    });
    match rx.recv_timeout(GUARD) {
        Ok(Ok(())) => Attempt::Opened,
        Ok(Err(e)) => Attempt::Refused(e),
        Err(_) => Attempt::Blocked,
    }
}

/// `check --worker open-hold <base> [try]`: opens the database, reports, and (unless `try`)
/// holds the handle until a line arrives on stdin.
pub fn worker(args: &[String]) -> i32 {
    let Some(base) = args.first() else { return 2 };
    let only_try = args.get(1).map(|s| s == "try").unwrap_or(false);
    // a holder (not a `try`) may be started right after this harness dropped its own handle:
    // a concurrently forked child of another shard can share that descriptor (and its lock)
    // until it execs, so the holder retries briefly
    let mut opened = Db::open(base);
    if !only_try {
        for _ in 0..40 {
            match &opened {
                Err(e) if e.to_string().contains("already open for writing") => {
                    std::thread::sleep(Duration::from_millis(50));
                    opened = Db::open(base);
                }
                _ => break,
            }
        }
    }
    match opened {
        Ok(db) => {
            println!("OPENED");
            let _ = std::io::stdout().flush();
            if !only_try {
                let mut line = String::new();
                let _ = std::io::stdin().read_line(&mut line);
            }
            drop(db);
            0
        }
        Err(e) => {
            println!("REFUSED {e}");
            0
        }
    }
}

fn spawn_worker(base: &std::path::Path, only_try: bool) -> std::io::Result<std::process::Child> {
    let mut c = Command::new(std::env::current_exe()?);
    c.arg("--worker").arg("open-hold").arg(base);
    if only_try {
        c.arg("try");
    }
    c.stdin(Stdio::piped()).stdout(Stdio::piped()).stderr(Stdio::null()).spawn()
}

fn read_line_timeout(child: &mut std::process::Child, d: Duration) -> Option<String> {
    let out = child.stdout.take()?;
    let (tx, rx) = mpsc::channel();
    std::thread::spawn(move || {
        let mut r = BufReader::new(out);
        let mut s = String::new();
        let _ = r.read_line(&mut s);
        let _ = tx.send(s);
    });
    rx.recv_timeout(d).ok()
}

fn test(c: &Case, obs: &mut Obs) -> CaseResult {
    let dir = crate::engine::temp_dir();
    let base = dir.join("db");
    let which = match c.second {
        Second::SameProcessRust => "same-process",
        Second::SameProcessCApi => "same-process-capi",
        Second::ChildOpens => "child-opens",
        Second::ChildHolds => "child-holds",
    };
    obs.class(which);
    if let Second::ChildHolds = c.second {
        // build some content first, then let a child hold the database
        {
            let mut r = Runner::new(base.clone(), Excl::default())?;
            for op in &c.ops {
                let _ = r.apply(op, false, false, obs);
            }
        }
        let mut child = spawn_worker(&base, false).map_err(|e| Failure::new("harness-spawn", e.to_string()))?;
        let line = read_line_timeout(&mut child, Duration::from_secs(20)).unwrap_or_default();
        if !line.starts_with("OPENED") {
            let _ = child.kill();
            let _ = child.wait();
            fail!("harness-child", "child could not open the database: {line:?}");
        }
        let a = try_open_in_thread(base.clone(), false);
        if let Some(mut si) = child.stdin.take() {
            let _ = si.write_all(b"done\n");
        }
        let _ = child.wait();
        obs.set_nontrivial(true);
        if a == Attempt::Opened {
            fail!("second-handle-opened:other-process-holds", "Db::open succeeded while another process holds the database open for writing");
        }
        // once the holder is gone the database must open again
        let mut last = try_open_in_thread(base.clone(), false);
        for _ in 0..40 {
            if last != Attempt::Opened {
                std::thread::sleep(Duration::from_millis(50));
                last = try_open_in_thread(base.clone(), false);
            }
        }
        return match last {
            Attempt::Opened => Ok(()),
            other => Err(Failure::new("open-after-holder-exit-fails", format!("{other:?}"))),
        };
    }
    let mut r = Runner::new(base.clone(), Excl::default())?;
    for op in &c.ops {
        r.apply(op, false, false, obs).map_err(|f| r.fail_with_log(f))?;
    }
    if let FirstState::AfterCompaction = c.state {
        r.apply(&Op::Compact, false, false, obs).map_err(|f| r.fail_with_log(f))?;
    }
    obs.class(match c.state {
        FirstState::Idle => "first-idle",
        FirstState::MidTransaction => "first-mid-transaction",
        FirstState::AfterCompaction => "first-after-compaction",
        FirstState::Committing => "first-committing",
    });
    if let FirstState::Committing = c.state {
        // the first handle commits in a loop (one node per transaction) while this thread keeps
        // trying to open a second handle; every attempt must be refused or block, and every
        // acknowledged commit must still be there after the first handle is closed and reopened
        let db = std::sync::Arc::new(r.db.take().unwrap());
        let stop = std::sync::Arc::new(std::sync::atomic::AtomicBool::new(false));
        let (db2, stop2) = (db.clone(), stop.clone());
        let first_ext = r.model.next_ext;
        let writer = std::thread::spawn(move || {
            let mut acked = 0u64;
            let mut err = None;
            for i in 0..400u64 {
                if stop2.load(std::sync::atomic::Ordering::SeqCst) && i >= 40 {
                    break;
                }
                let mut tx = db2.begin_write();
                let label = match tx.get_or_create_label("A") {
                    Ok(l) => l,
                    Err(e) => {
                        err = Some(e.to_string());
                        break;
                    }
                };
                match tx.create_node(first_ext + i, label) {
                    Ok(n) => {
                        // many records per commit: a long window between the first appended
                        // record and the commit record
                        for k in 0..60 {
                            let _ = tx.set_node_property(n, format!("w{k}"), nervusdb::PropertyValue::Int(i as i64));
                        }
                    }
                    Err(e) => {
                        err = Some(e.to_string());
                        break;
                    }
                }
                match tx.commit() {
                    Ok(()) => acked += 1,
                    Err(e) => {
                        err = Some(e.to_string());
                        break;
                    }
                }
            }
            (acked, err)
        });
        let mut opened = false;
        // the first attempt goes through the guard (an implementation may block instead of
        // refusing); if it is refused at once the remaining attempts run in a tight loop
        let capi = matches!(c.second, Second::SameProcessCApi);
        let first = try_open_in_thread(base.clone(), capi);
        if first == Attempt::Opened {
            opened = true;
        } else if matches!(first, Attempt::Refused(_)) {
            let t0 = std::time::Instant::now();
            let mut attempts = 0u64;
            while t0.elapsed() < Duration::from_millis(400) {
                attempts += 1;
                let ok = if capi { crate::capi_util::CDb::open(&base).map(|d| { let _ = d.close(); }).is_ok() } else { Db::open(&base).is_ok() };
                if ok {
                    opened = true;
                    break;
                }
            }
            obs.count("refused_open_attempts", attempts);
        }
        stop.store(true, std::sync::atomic::Ordering::SeqCst);
        let (acked, werr) = writer.join().map_err(|_| Failure::new("harness-writer-panicked", "writer thread panicked"))?;
        obs.set_nontrivial(true);
        obs.count("commits_during_open_attempts", acked);
        if opened {
            fail!(format!("second-handle-opened:{which}:while-committing"), "a second handle opened while the first handle was committing");
        }
        if let Some(e) = werr {
            fail!("first-handle-commit-failed-during-second-open", "a commit of the first handle failed while a second open was attempted: {e}");
        }
        let db = std::sync::Arc::try_unwrap(db).map_err(|_| Failure::new("harness", "db still shared"))?;
        drop(db);
        let mut m = r.model.clone();
        for i in 0..acked {
            let id = m.create_node(&["A".to_string()]);
            for k in 0..60 {
                m.nodes.get_mut(&id).unwrap().props.insert(format!("w{k}"), crate::pv::PV::Int(i as i64));
            }
        }
        r.model = m;
        r.db = Some(hist::open_db(&base).map_err(|f| Failure::new(format!("reopen-after-contended-commits:{}", f.signature), f.message))?);
        return r.check().map_err(|f| Failure::new(format!("commits-lost-by-refused-second-open:{}", f.signature), format!("{acked} commits were acknowledged while second opens were refused; after reopen: {}", f.message)));
    }
    let db = r.db.take().unwrap();
    let attempt = {
        let _tx = if let FirstState::MidTransaction = c.state { Some(db.begin_write()) } else { None };
        match c.second {
            Second::SameProcessRust => try_open_in_thread(base.clone(), false),
            Second::SameProcessCApi => try_open_in_thread(base.clone(), true),
            Second::ChildOpens => {
                let mut child = spawn_worker(&base, true).map_err(|e| Failure::new("harness-spawn", e.to_string()))?;
                let line = read_line_timeout(&mut child, GUARD);
                let _ = child.kill();
                let _ = child.wait();
                match line {
                    None => Attempt::Blocked,
                    Some(l) if l.starts_with("OPENED") => Attempt::Opened,
                    Some(l) => Attempt::Refused(l),
                }
            }
            Second::ChildHolds => unreachable!(),
        }
    };
    obs.set_nontrivial(true);
    if attempt == Attempt::Opened {
        fail!(format!("second-handle-opened:{which}"), "a second handle on {which} opened while the first handle ({:?}) is alive", c.state);
    }
    // the first handle keeps working, and after it is gone the database opens again with its content
    r.db = Some(db);
    r.check().map_err(|f| r.fail_with_log(f))?;
    drop(r.db.take());
    // other shards of this harness fork children concurrently; until such a child execs it
    // shares our (already dropped) descriptor and thereby the lock, so retry briefly
    let mut opened = catch(|| Db::open(&base));
    for _ in 0..40 {
        if matches!(opened, Ok(Err(_))) {
            std::thread::sleep(Duration::from_millis(50));
            opened = catch(|| Db::open(&base));
        }
    }
    match opened {
        Ok(Ok(db2)) => {
            r.db = Some(db2);
            r.check().map_err(|f| Failure::new(format!("content-after-refused-second-open:{}", f.signature), f.message))
        }
        Ok(Err(e)) => Err(Failure::new("open-after-first-handle-dropped-fails", e.to_string())),
        Err((l, m)) => Err(Failure::new(format!("panic@{l}"), m)),
    }
}

pub fn run(ctx: &mut RunCtx) {
    ctx.assume("'waits' is observed as: the second open has not returned within 1.5 s while the first handle is alive; cross-process behaviour is exercised on Linux only");
    let mut p = Profile::base();
    p.ops = 0..6;
    p.ws = 1..5;
    p.nested_values = false;
    let n = ctx.tier.pick(400, 12_000);
    ctx.shrink_iters = 40;
    ctx.explore(
        "second-open",
        "generated history on a first handle left idle / mid-transaction / after compaction, then a second open of the same path from the same process (Rust API, C API) or across processes (child opens / child holds); the second open must be refused or block while the first handle is alive, the first handle must keep working, and the database must open again once the holder is gone; every case is non-trivial (a second open is always attempted)",
        n,
        || {
            (
                hist::history(&p),
                prop_oneof![Just(FirstState::Idle), Just(FirstState::MidTransaction), Just(FirstState::AfterCompaction), Just(FirstState::Committing)],
                prop_oneof![3 => Just(Second::SameProcessRust), 2 => Just(Second::SameProcessCApi), 2 => Just(Second::ChildOpens), 2 => Just(Second::ChildHolds)],
            )
                .prop_map(|(ops, state, second)| Case { ops, state, second })
        },
        test,
    );
}
