//! C14 No dangling relationships.
use crate::cy::{self, CV};
use crate::cyw::{self, Mix, Op, Pool, RS, Route, World};
use crate::engine::{CaseResult, Failure, Obs, RunCtx, fp};
use crate::model::Model;
use proptest::prelude::*;
use serde::{Deserialize, Serialize};
use std::collections::BTreeSet;

#[derive(Debug, Clone, Serialize, Deserialize)]
pub enum Step {
    Auto(Op),
    Txn { ops: Vec<Op>, commit: bool },
    Compact,
    Reopen,
}

fn mix(recent_8: u32) -> Mix {
    Mix { create_nodes: 2, create_pairs: 3, link: 5, delete: 5, detach_delete: 3, delete_rel: 1, ctd: 3, ltd: 3, merge: 1, recent_8, max_rows: 3, ..Default::default() }
}

fn strategy(steps: std::ops::Range<usize>) -> impl Strategy<Value = Vec<Step>> {
    let step = prop_oneof![
        10 => cyw::op(&mix(0)).prop_map(Step::Auto),
        8 => (prop::collection::vec(cyw::op(&mix(5)), 1..5), prop::bool::weighted(0.85)).prop_map(|(ops, commit)| Step::Txn { ops, commit }),
        1 => Just(Step::Compact),
        1 => Just(Step::Reopen),
    ];
    prop::collection::vec(step, steps)
}

fn ints(row: &[CV]) -> Option<(i64, String, i64)> {
    match (&row[0], &row[1], &row[2]) {
        (CV::Int(a), CV::Str(t), CV::Int(b)) => Some((*a, t.clone(), *b)),
        _ => None,
    }
}

/// The validity oracle: traversals in both directions over one state.
pub fn traversal_check(w: &World) -> CaseResult {
    let db = w.db();
    let p = Default::default();
    let read = |q: &str| cy::read(db, q, &p).map_err(|e| Failure::new("read-failed", format!("{q}: {}", e.text())));
    let (_, idrows) = read("MATCH (n) RETURN id(n) AS i")?;
    let mut ids = BTreeSet::new();
    for r in &idrows {
        let CV::Int(i) = r[0] else { fail!("read-failed", "id(n) is not an integer: {:?}", r[0]) };
        if !ids.insert(i) {
            fail!("node-returned-twice", "MATCH (n) returns id {i} twice");
        }
    }
    let (_, out) = read("MATCH (a)-[r]->(b) RETURN id(a) AS a, type(r) AS t, id(b) AS b, labels(a) AS la, labels(b) AS lb")?;
    let (_, inc) = read("MATCH (b)<-[r]-(a) RETURN id(a) AS a, type(r) AS t, id(b) AS b, labels(a) AS la, labels(b) AS lb")?;
    for (dir, rows) in [("out", &out), ("in", &inc)] {
        for r in rows.iter() {
            let Some((a, t, b)) = ints(r) else { fail!("read-failed", "unexpected row {r:?}") };
            if !ids.contains(&a) {
                fail!(format!("dangling-relationship:{dir}:source-missing"), "MATCH {} returns ({a})-[:{t}]->({b}) but node {a} is not among MATCH (n): {ids:?}", if dir == "out" { "(a)-[r]->(b)" } else { "(b)<-[r]-(a)" });
            }
            if !ids.contains(&b) {
                fail!(format!("dangling-relationship:{dir}:target-missing"), "MATCH {} returns ({a})-[:{t}]->({b}) but node {b} is not among MATCH (n): {ids:?}", if dir == "out" { "(a)-[r]->(b)" } else { "(b)<-[r]-(a)" });
            }
        }
    }
    if !cy::rows_same_multiset(&out, &inc) {
        fail!("out-in-traversals-disagree", "MATCH (a)-[r]->(b) returns {:?} but MATCH (b)<-[r]-(a) returns {:?}", cy::sorted(out), cy::sorted(inc));
    }
    // the model's relationships, as the traversal must see them
    let mut want: Vec<(i64, String, i64)> = Vec::new();
    for ((s, t, d), c) in &w.model.edges {
        for _ in 0..*c {
            want.push((*s as i64, t.clone(), *d as i64));
        }
    }
    want.sort();
    let mut got: Vec<(i64, String, i64)> = out.iter().filter_map(|r| ints(r)).collect();
    got.sort();
    if want != got {
        let sig = if got.len() > want.len() { "traversal-extra-relationship" } else { "traversal-missing-relationship" };
        fail!(sig, "MATCH (a)-[r]->(b) returns {got:?}, the model has {want:?}");
    }
    Ok(())
}

/// Does the statement delete a node that has a relationship created in the same statement
/// or (given the relationships that existed when the transaction began) transaction?
fn deletes_with_fresh_rel(rs: &RS, now: &Model, at_begin: &Model) -> bool {
    match rs {
        RS::CreateThenDelete { .. } | RS::LinkThenDelete { .. } => true,
        RS::Delete { ks, .. } => ks.iter().flat_map(|k| cyw::nodes_with_k(now, *k)).any(|n| {
            now.incident_keys(n).iter().any(|e| now.edges.get(e).copied().unwrap_or(0) > at_begin.edges.get(e).copied().unwrap_or(0))
        }),
        _ => false,
    }
}

fn context(rs: &RS, fresh: bool) -> &'static str {
    match rs {
        RS::CreateThenDelete { .. } | RS::LinkThenDelete { .. } => "same-statement",
        _ if fresh => "same-transaction",
        _ => "committed",
    }
}

pub fn run(ctx: &mut RunCtx) {
    ctx.assume("a non-DETACH DELETE fails when any target node has a relationship that the same statement does not delete, even if the other endpoint is deleted too (openCypher; the engine's own rule for committed relationships)");
    let cases = ctx.tier.pick(150_000, 600_000);
    let steps = ctx.tier.pick(1..9, 1..16);
    let test = |hist: &Vec<Step>, obs: &mut Obs| {
        let mut w = World::new()?;
        let none = BTreeSet::new();
        let mut hard = false;
        for step in hist {
            match step {
                Step::Compact => {
                    w.compact().map_err(|f| w.fail_with_log(f))?;
                    obs.class("compact");
                }
                Step::Reopen => {
                    w.reopen().map_err(|f| w.fail_with_log(f))?;
                    obs.class("reopen");
                }
                Step::Auto(op) => {
                    let Some(rs) = cyw::resolve(op, &w.model, &Pool { only: None, recent: &none }, &mut w.next_k) else { continue };
                    let mut m = w.model.clone();
                    let expect = rs.apply(&mut m);
                    let fresh = deletes_with_fresh_rel(&rs, &w.model, &w.model);
                    let r = w.exec_auto(Route::CapiWrite, &rs.render())?;
                    match (&expect, &r) {
                        (Ok(()), Ok(_)) => w.model = m,
                        (Err(_), Err(_)) => obs.class(&format!("refused:{}", context(&rs, fresh))),
                        (Err(why), Ok(_)) => {
                            return Err(w.fail_with_log(Failure::new(format!("connected-node-deleted:{}", context(&rs, fresh)), format!("statement must fail ({}) but succeeded", why.0))));
                        }
                        (Ok(()), Err(e)) => return Err(w.fail_with_log(Failure::new("valid-statement-failed", format!("statement failed: {e}")))),
                    }
                    if fresh {
                        hard = true;
                        obs.sub_eval(Some(fp(&(rs.render().len(), context(&rs, fresh), expect.is_ok()))));
                    }
                }
                Step::Txn { ops, commit } => {
                    let at_begin = w.model.clone();
                    let mut model = w.model.clone();
                    let mut next_k = w.next_k;
                    let mut log = std::mem::take(&mut w.log);
                    let mut classes: Vec<String> = Vec::new();
                    let mut fps = Vec::new();
                    let r: CaseResult = (|| {
                        let mut t = w.cdb().begin_write().map_err(|e| Failure::new("capi-call-failed:ndb_begin_write", e.to_string()))?;
                        log.push("begin".into());
                        let mut recent = BTreeSet::new();
                        for op in ops {
                            let Some(rs) = cyw::resolve(op, &model, &Pool { only: None, recent: &recent }, &mut next_k) else { continue };
                            let mut m = model.clone();
                            let expect = rs.apply(&mut m);
                            let fresh = deletes_with_fresh_rel(&rs, &model, &at_begin);
                            let r = cyw::txn_stmt(&mut log, &mut t, &rs.render());
                            match (&expect, &r) {
                                (Ok(()), Ok(())) => {
                                    recent.extend(cyw::touched(&model, &m));
                                    model = m;
                                }
                                (Err(_), Err(_)) => classes.push(format!("refused:{}", context(&rs, fresh))),
                                (Err(why), Ok(())) => {
                                    fail!(format!("connected-node-deleted:{}", context(&rs, fresh)), "statement must fail ({}) but succeeded", why.0);
                                }
                                (Ok(()), Err(e)) => fail!("valid-statement-failed:in-txn", "statement failed: {e}"),
                            }
                            if fresh {
                                fps.push(fp(&(rs.render().len(), context(&rs, fresh), expect.is_ok(), 1u8)));
                            }
                        }
                        if *commit {
                            log.push("commit".into());
                            t.commit().map_err(|e| Failure::new("commit-failed", e.to_string()))?;
                        } else {
                            log.push("rollback".into());
                            t.rollback().map_err(|e| Failure::new("rollback-failed", e.to_string()))?;
                        }
                        Ok(())
                    })();
                    w.log = log;
                    r.map_err(|f| w.fail_with_log(f))?;
                    for c in classes {
                        obs.class(&c);
                    }
                    for f in fps {
                        hard = true;
                        obs.sub_eval(Some(f));
                    }
                    if *commit {
                        w.model = model;
                        w.next_k = next_k;
                        obs.class("txn-commit");
                    } else {
                        // internal ids are only consumed by committed transactions
                        w.next_k = next_k;
                        obs.class("txn-rollback");
                    }
                }
            }
            obs.sub_eval(None);
            traversal_check(&w).map_err(|f| w.fail_with_log(f))?;
            w.check().map_err(|f| w.fail_with_log(f))?;
        }
        obs.set_nontrivial(hard);
        Ok(())
    };
    ctx.explore(
        "histories",
        "generated histories of CREATE / link / (DETACH) DELETE / relationship delete statements, including create-then-delete in one statement (`CREATE (a)-[r]->(b) DELETE a`, `MATCH (x) CREATE (x)-[]->(b) DELETE x`, legal variants `DELETE r, a` and `DETACH DELETE a`), in one explicit C-API transaction (committed or rolled back) and across transactions, with compaction and reopen; after every step: MATCH (a)-[r]->(b) and MATCH (b)<-[r]-(a) with id/labels of both ends: every endpoint is among MATCH (n) of the same state, both directions agree as multisets and equal the model's relationships, plus the full storage dump == model; a non-DETACH delete that the model refuses must fail. Non-trivial = a delete whose target has >= 1 relationship created in the same statement or transaction",
        cases,
        || strategy(steps.clone()),
        test,
    );
}
