//! nvcheck: property-based checks for nervusdb. See /verif/DESIGN.md.
#![allow(clippy::type_complexity, clippy::too_many_arguments)]

#[macro_use]
pub mod engine;
pub mod alloc_count;
pub mod capi_util;
pub mod capi_util_misc;
pub mod cy;
pub mod cyw;
pub mod hist;
pub mod iosim;
pub mod model;
pub mod pv;
pub mod props;
pub mod refcy;

use engine::{Mode, RunCtx, Tier};

fn usage() -> ! {
    eprintln!("usage: check <ID> [--tier quick|thorough] [--seed N] [--replay FILE]");
    std::process::exit(2)
}

fn main() {
    let args: Vec<String> = std::env::args().skip(1).collect();
    if args.is_empty() {
        usage();
    }
    if args[0] == "--worker" {
        std::process::exit(props::worker_main(&args[1..]));
    }
    let id = args[0].to_uppercase();
    let mut tier = match std::env::var("VERIF_TIER").as_deref() {
        Ok("thorough") => Tier::Thorough,
        _ => Tier::Quick,
    };
    let mut seed: u64 = std::env::var("VERIF_SEED")
        .ok()
        .and_then(|s| s.trim().parse::<i64>().ok())
        .map(|v| v as u64)
        .unwrap_or(0);
    let mut mode = Mode::Explore;
    let mut i = 1;
    while i < args.len() {
        match args[i].as_str() {
            "--tier" => {
                i += 1;
                tier = match args.get(i).map(|s| s.as_str()) {
                    Some("quick") => Tier::Quick,
                    Some("thorough") => Tier::Thorough,
                    _ => usage(),
                };
            }
            "--seed" => {
                i += 1;
                seed = args.get(i).and_then(|s| s.parse::<i64>().ok()).map(|v| v as u64).unwrap_or_else(|| usage());
            }
            "--replay" => {
                i += 1;
                mode = Mode::Replay(args.get(i).map(std::path::PathBuf::from).unwrap_or_else(|| usage()));
            }
            _ => usage(),
        }
        i += 1;
    }
    let Some(entry) = props::REGISTRY.iter().find(|e| e.id == id) else {
        eprintln!("unknown property {id}");
        std::process::exit(2);
    };
    engine::install_panic_hook();
    // watchdog: a hang is inconclusive (exit 2), never a violation
    let budget = std::env::var("NVCHECK_WATCHDOG_S")
        .ok()
        .and_then(|s| s.parse::<u64>().ok())
        .unwrap_or(match tier {
            Tier::Quick => 1500,
            Tier::Thorough => 4 * 3600,
        });
    std::thread::spawn(move || {
        std::thread::sleep(std::time::Duration::from_secs(budget));
        println!("INCONCLUSIVE property={id} watchdog after {budget}s");
        std::process::exit(2);
    });
    let mut ctx = RunCtx::new(entry.id, entry.level, tier, seed, mode);
    (entry.run)(&mut ctx);
    let code = ctx.finish();
    std::process::exit(code);
}
