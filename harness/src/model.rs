//! Reference property graph, database dump through the public read interfaces, and diff.
use crate::engine::{Failure, catch};
use crate::pv::PV;
use nervusdb::{Db, EdgeKey, GraphSnapshot};
use serde::{Deserialize, Serialize};
use std::collections::{BTreeMap, BTreeSet};

pub type Iid = u32;
pub type EKey = (Iid, String, Iid);

#[derive(Debug, Clone, Default, PartialEq, Serialize, Deserialize)]
pub struct MNode {
    pub ext: u64,
    pub labels: BTreeSet<String>,
    pub props: BTreeMap<String, PV>,
}

#[derive(Debug, Clone, Default, PartialEq, Serialize, Deserialize)]
pub struct Model {
    pub nodes: BTreeMap<Iid, MNode>,
    pub dead: BTreeSet<Iid>,
    /// multiset of relationship instances per key
    pub edges: BTreeMap<EKey, u32>,
    pub edge_props: BTreeMap<EKey, BTreeMap<String, PV>>,
    pub next_iid: Iid,
    pub next_ext: u64,
}

impl Model {
    pub fn new() -> Self {
        Model {
            next_ext: 1,
            ..Default::default()
        }
    }
    pub fn live_nodes(&self) -> Vec<Iid> {
        self.nodes.keys().copied().collect()
    }
    pub fn live_keys(&self) -> Vec<EKey> {
        self.edges.keys().cloned().collect()
    }
    pub fn create_node(&mut self, labels: &[String]) -> Iid {
        let id = self.next_iid;
        self.next_iid += 1;
        let ext = self.next_ext;
        self.next_ext += 1;
        self.nodes.insert(
            id,
            MNode {
                ext,
                labels: labels.iter().cloned().collect(),
                props: BTreeMap::new(),
            },
        );
        id
    }
    pub fn incident_keys(&self, n: Iid) -> Vec<EKey> {
        self.edges.keys().filter(|k| k.0 == n || k.2 == n).cloned().collect()
    }
    pub fn delete_edge_key(&mut self, k: &EKey) {
        self.edges.remove(k);
        self.edge_props.remove(k);
    }
    pub fn delete_node(&mut self, n: Iid) {
        for k in self.incident_keys(n) {
            self.delete_edge_key(&k);
        }
        self.nodes.remove(&n);
        self.dead.insert(n);
    }
    pub fn edge_instances(&self) -> u64 {
        self.edges.values().map(|c| *c as u64).sum()
    }
    /// logical equality (ignores id allocation counters)
    pub fn same_graph(&self, o: &Model) -> bool {
        self.nodes.len() == o.nodes.len()
            && self.nodes.iter().zip(&o.nodes).all(|((ia, a), (ib, b))| {
                ia == ib && a.ext == b.ext && a.labels == b.labels && props_same(&a.props, &b.props)
            })
            && self.edges == o.edges
            && self.edge_props.len() == o.edge_props.len()
            && self
                .edge_props
                .iter()
                .zip(&o.edge_props)
                .all(|((ka, a), (kb, b))| ka == kb && props_same(a, b))
    }
}

pub fn props_same(a: &BTreeMap<String, PV>, b: &BTreeMap<String, PV>) -> bool {
    a.len() == b.len() && a.iter().zip(b).all(|((ka, va), (kb, vb))| ka == kb && va.same(vb))
}

#[derive(Debug, Clone, Default)]
pub struct DNode {
    pub ext: Option<u64>,
    pub labels: BTreeSet<String>,
    pub unresolved_labels: Vec<u32>,
    pub props: BTreeMap<String, PV>,
    /// per-key reads (`node_property`) of every key of the universe
    pub single: BTreeMap<String, PV>,
    pub tombstoned_flag: bool,
}

#[derive(Debug, Clone, Default)]
pub struct Dump {
    pub nodes: BTreeMap<Iid, DNode>,
    pub out: BTreeMap<Iid, Vec<(String, Iid)>>,
    pub inc: BTreeMap<Iid, Vec<(String, Iid)>>,
    /// per node: neighbours with a type filter, for every type of the universe
    pub out_filtered: BTreeMap<(Iid, String), Vec<Iid>>,
    pub inc_filtered: BTreeMap<(Iid, String), Vec<Iid>>,
    pub edge_props: BTreeMap<EKey, BTreeMap<String, PV>>,
    pub edge_single: BTreeMap<EKey, BTreeMap<String, PV>>,
    /// tombstone flag of ids the model considers dead
    pub dead_flags: BTreeMap<Iid, (bool, bool)>, // (is_tombstoned_node, appears in nodes())
}

pub struct Universe<'a> {
    pub keys: &'a [String],
    pub types: &'a [String],
}

fn rel_name<S: GraphSnapshot>(s: &S, id: u32) -> String {
    s.resolve_rel_type_name(id).unwrap_or_else(|| format!("#unresolved{id}"))
}

/// Reads everything the read interfaces expose. Panics inside the database are reported
/// as failures with the panic location as signature.
pub fn dump_snapshot<S: GraphSnapshot>(s: &S, uni: &Universe<'_>, model_dead: &BTreeSet<Iid>) -> Result<Dump, Failure> {
    let r = catch(|| {
        let mut d = Dump::default();
        let ids: Vec<Iid> = s.nodes().collect();
        for &n in &ids {
            let mut dn = DNode {
                ext: s.resolve_external(n),
                tombstoned_flag: s.is_tombstoned_node(n),
                ..Default::default()
            };
            for l in s.resolve_node_labels(n).unwrap_or_default() {
                if l == u32::MAX {
                    continue; // the documented "no label" sentinel
                }
                match s.resolve_label_name(l) {
                    Some(name) => {
                        dn.labels.insert(name);
                    }
                    None => dn.unresolved_labels.push(l),
                }
            }
            if let Some(m) = s.node_properties(n) {
                for (k, v) in m {
                    dn.props.insert(k, PV::from_api(&v));
                }
            }
            for k in uni.keys {
                if let Some(v) = s.node_property(n, k) {
                    dn.single.insert(k.clone(), PV::from_api(&v));
                }
            }
            d.nodes.insert(n, dn);
            let mut out: Vec<(String, Iid)> = s.neighbors(n, None).map(|e| {
                assert_eq!(e.src, n, "neighbors({n}) returned an edge with src {}", e.src);
                (rel_name(s, e.rel), e.dst)
            }).collect();
            out.sort();
            let mut inc: Vec<(String, Iid)> = s.incoming_neighbors(n, None).map(|e| {
                assert_eq!(e.dst, n, "incoming_neighbors({n}) returned an edge with dst {}", e.dst);
                (rel_name(s, e.rel), e.src)
            }).collect();
            inc.sort();
            for t in uni.types {
                let tid = s.resolve_rel_type_id(t);
                let (mut o, mut i): (Vec<Iid>, Vec<Iid>) = match tid {
                    Some(tid) => (
                        s.neighbors(n, Some(tid)).map(|e| e.dst).collect(),
                        s.incoming_neighbors(n, Some(tid)).map(|e| e.src).collect(),
                    ),
                    None => (vec![], vec![]),
                };
                o.sort();
                i.sort();
                d.out_filtered.insert((n, t.clone()), o);
                d.inc_filtered.insert((n, t.clone()), i);
            }
            // relationship properties, read through the key of each distinct outgoing edge
            let mut seen = BTreeSet::new();
            for e in s.neighbors(n, None) {
                let key = (e.src, rel_name(s, e.rel), e.dst);
                if !seen.insert(key.clone()) {
                    continue;
                }
                let ek = EdgeKey { src: e.src, rel: e.rel, dst: e.dst };
                let mut pm = BTreeMap::new();
                if let Some(m) = s.edge_properties(ek) {
                    for (k, v) in m {
                        pm.insert(k, PV::from_api(&v));
                    }
                }
                let mut sm = BTreeMap::new();
                for k in uni.keys {
                    if let Some(v) = s.edge_property(ek, k) {
                        sm.insert(k.clone(), PV::from_api(&v));
                    }
                }
                d.edge_props.insert(key.clone(), pm);
                d.edge_single.insert(key, sm);
            }
            d.out.insert(n, out);
            d.inc.insert(n, inc);
        }
        let idset: BTreeSet<Iid> = ids.iter().copied().collect();
        for &n in model_dead {
            d.dead_flags.insert(n, (s.is_tombstoned_node(n), idset.contains(&n)));
        }
        d
    });
    r.map_err(|(loc, msg)| Failure::new(format!("panic@{loc}"), format!("read panicked at {loc}: {msg}")))
}

pub fn dump_db(db: &Db, uni: &Universe<'_>, model_dead: &BTreeSet<Iid>) -> Result<Dump, Failure> {
    let snap = catch(|| db.snapshot())
        .map_err(|(loc, msg)| Failure::new(format!("panic@{loc}"), format!("snapshot() panicked at {loc}: {msg}")))?;
    dump_snapshot(&snap, uni, model_dead)
}

fn multiset(edges: &BTreeMap<EKey, u32>, n: Iid, outgoing: bool) -> Vec<(String, Iid)> {
    let mut v = Vec::new();
    for ((s, t, d), c) in edges {
        if outgoing && *s == n {
            for _ in 0..*c {
                v.push((t.clone(), *d));
            }
        }
        if !outgoing && *d == n {
            for _ in 0..*c {
                v.push((t.clone(), *s));
            }
        }
    }
    v.sort();
    v
}

fn diff_props(what: &str, id: &str, m: &BTreeMap<String, PV>, d: &BTreeMap<String, PV>, via: &str) -> Result<(), Failure> {
    for (k, mv) in m {
        match d.get(k) {
            None => fail!(format!("{what}-prop-missing:{via}"), "{what} {id}: property {k:?} should be {mv:?} but {via} returns nothing"),
            Some(dv) if !dv.same(mv) => fail!(format!("{what}-prop-stale:{via}"), "{what} {id}: property {k:?} should be {mv:?} but {via} returns {dv:?}"),
            _ => {}
        }
    }
    for (k, dv) in d {
        if !m.contains_key(k) {
            fail!(format!("{what}-prop-resurrected:{via}"), "{what} {id}: property {k:?} should be absent but {via} returns {dv:?}");
        }
    }
    Ok(())
}

/// First difference between the model and a dump, as a typed failure.
pub fn diff(m: &Model, d: &Dump, uni: &Universe<'_>) -> Result<(), Failure> {
    for (id, mn) in &m.nodes {
        let Some(dn) = d.nodes.get(id) else {
            fail!("node-missing", "node {id} (ext {}) exists in the model but nodes() does not return it", mn.ext);
        };
        if dn.tombstoned_flag {
            fail!("live-node-flagged-tombstoned", "node {id} is live but is_tombstoned_node is true");
        }
        if dn.ext != Some(mn.ext) {
            fail!("external-id-wrong", "node {id}: external id should be {} but resolve_external returns {:?}", mn.ext, dn.ext);
        }
        if !dn.unresolved_labels.is_empty() {
            fail!("label-unresolvable", "node {id}: label ids {:?} have no name", dn.unresolved_labels);
        }
        for l in &mn.labels {
            if !dn.labels.contains(l) {
                fail!("label-lost", "node {id}: label {l:?} missing; db has {:?}, model {:?}", dn.labels, mn.labels);
            }
        }
        for l in &dn.labels {
            if !mn.labels.contains(l) {
                fail!("label-extra", "node {id}: unexpected label {l:?}; db has {:?}, model {:?}", dn.labels, mn.labels);
            }
        }
        diff_props("node", &id.to_string(), &mn.props, &dn.props, "node_properties")?;
        let uni_props: BTreeMap<String, PV> = mn.props.iter().filter(|(k, _)| uni.keys.contains(k)).map(|(k, v)| (k.clone(), v.clone())).collect();
        diff_props("node", &id.to_string(), &uni_props, &dn.single, "node_property")?;
        let mo = multiset(&m.edges, *id, true);
        let mi = multiset(&m.edges, *id, false);
        let dout = d.out.get(id).cloned().unwrap_or_default();
        let dinc = d.inc.get(id).cloned().unwrap_or_default();
        if mo != dout {
            let sig = if dout.len() < mo.len() { "edge-missing-out" } else if dout.len() > mo.len() { "edge-extra-out" } else { "edge-wrong-out" };
            fail!(sig, "node {id}: outgoing relationships should be {mo:?} but neighbors() returns {dout:?}");
        }
        if mi != dinc {
            let sig = if dinc.len() < mi.len() { "edge-missing-in" } else if dinc.len() > mi.len() { "edge-extra-in" } else { "edge-wrong-in" };
            fail!(sig, "node {id}: incoming relationships should be {mi:?} but incoming_neighbors() returns {dinc:?}");
        }
        for t in uni.types {
            let fo: Vec<Iid> = mo.iter().filter(|(tt, _)| tt == t).map(|x| x.1).collect();
            let fi: Vec<Iid> = mi.iter().filter(|(tt, _)| tt == t).map(|x| x.1).collect();
            if d.out_filtered.get(&(*id, t.clone())).cloned().unwrap_or_default() != fo {
                fail!("filtered-neighbors-disagree-out", "node {id} type {t}: expected {fo:?} got {:?}", d.out_filtered.get(&(*id, t.clone())));
            }
            if d.inc_filtered.get(&(*id, t.clone())).cloned().unwrap_or_default() != fi {
                fail!("filtered-neighbors-disagree-in", "node {id} type {t}: expected {fi:?} got {:?}", d.inc_filtered.get(&(*id, t.clone())));
            }
        }
    }
    for id in d.nodes.keys() {
        if !m.nodes.contains_key(id) {
            if m.dead.contains(id) {
                fail!("node-resurrected", "node {id} was deleted but nodes() returns it");
            }
            fail!("node-extra", "nodes() returns {id}, which the model never created");
        }
    }
    for (id, (flag, listed)) in &d.dead_flags {
        if *listed {
            fail!("node-resurrected", "node {id} was deleted but nodes() returns it");
        }
        let _ = flag;
    }
    let empty = BTreeMap::new();
    for k in m.edges.keys() {
        let mp = m.edge_props.get(k).unwrap_or(&empty);
        let dp = d.edge_props.get(k).unwrap_or(&empty);
        diff_props("edge", &format!("{k:?}"), mp, dp, "edge_properties")?;
        let uni_props: BTreeMap<String, PV> = mp.iter().filter(|(kk, _)| uni.keys.contains(kk)).map(|(a, b)| (a.clone(), b.clone())).collect();
        let ds = d.edge_single.get(k).unwrap_or(&empty);
        diff_props("edge", &format!("{k:?}"), &uni_props, ds, "edge_property")?;
    }
    Ok(())
}
