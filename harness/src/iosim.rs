//! I/O trace recorder (through the `io` verification hook), crash-image builder for
//! process death and power loss, and single-fault injection plans.
use nervusdb::verif_hooks::{self as vh, Hooks, IoEvent, IoKind};
use serde::{Deserialize, Serialize};
use std::collections::BTreeMap;
use std::path::Path;
use std::sync::atomic::{AtomicU64, AtomicUsize, Ordering};
use std::sync::{Arc, Mutex};

#[derive(Debug, Clone, Serialize, Deserialize, PartialEq)]
pub enum EvKind {
    Write { off: u64, data: Vec<u8> },
    SetLen { len: u64 },
    Sync,
    Create,
    Rename { to: String },
    Unlink,
}

#[derive(Debug, Clone, Serialize, Deserialize, PartialEq)]
pub struct Ev {
    pub file: String,
    pub kind: EvKind,
    /// index of the history operation that issued the event
    pub op: usize,
    /// commits acknowledged (returned Ok) strictly before this event
    pub acked: usize,
    /// commits whose `commit()` had started before or at this event
    pub started: usize,
}

impl Ev {
    pub fn short(&self) -> String {
        match &self.kind {
            EvKind::Write { off, data } => format!("write {} @{} +{}", self.file, off, data.len()),
            EvKind::SetLen { len } => format!("set_len {} {}", self.file, len),
            EvKind::Sync => format!("sync {}", self.file),
            EvKind::Create => format!("create {}", self.file),
            EvKind::Rename { to } => format!("rename {} -> {}", self.file, to),
            EvKind::Unlink => format!("unlink {}", self.file),
        }
    }
}

fn fname(p: &Path) -> String {
    p.file_name().map(|s| s.to_string_lossy().into_owned()).unwrap_or_default()
}

/// What the installed handler does with the N-th event.
#[derive(Debug, Clone, Copy, PartialEq, Eq)]
pub enum Plan {
    Record,
    /// fail event number `n` (0-based over the whole recording) with EIO, once
    FailAt(u64),
}

pub struct Recorder {
    pub events: Mutex<Vec<Ev>>,
    pub op: AtomicUsize,
    pub acked: AtomicUsize,
    pub started: AtomicUsize,
    pub counter: AtomicU64,
    pub plan: Mutex<Plan>,
    pub fault_hit: AtomicU64,
    pub keep_data: bool,
    /// names that exist according to the events seen so far
    names: Mutex<std::collections::BTreeSet<String>>,
    /// removals that bypassed the hook (found by looking at the real directory)
    pub unhooked_unlinks: AtomicU64,
}

impl Recorder {
    pub fn new(plan: Plan, keep_data: bool) -> Arc<Self> {
        Arc::new(Recorder {
            events: Mutex::new(Vec::new()),
            op: AtomicUsize::new(0),
            acked: AtomicUsize::new(0),
            started: AtomicUsize::new(0),
            counter: AtomicU64::new(0),
            plan: Mutex::new(plan),
            fault_hit: AtomicU64::new(0),
            keep_data,
            names: Mutex::new(Default::default()),
            unhooked_unlinks: AtomicU64::new(0),
        })
    }
    pub fn install(self: &Arc<Self>) -> Guard {
        let prev = vh::install(Some(self.clone() as Arc<dyn Hooks>));
        Guard(prev)
    }
    pub fn take(&self) -> Vec<Ev> {
        std::mem::take(&mut *self.events.lock().unwrap())
    }
    pub fn len(&self) -> usize {
        self.events.lock().unwrap().len()
    }
    pub fn is_empty(&self) -> bool {
        self.len() == 0
    }
}

/// Restores the previous handler on drop.
pub struct Guard(Option<Arc<dyn Hooks>>);
impl Drop for Guard {
    fn drop(&mut self) {
        vh::install(self.0.take());
    }
}

impl Hooks for Recorder {
    fn io(&self, ev: &IoEvent<'_>) -> std::io::Result<()> {
        let n = self.counter.fetch_add(1, Ordering::SeqCst);
        if let Plan::FailAt(k) = *self.plan.lock().unwrap() {
            if n == k {
                self.fault_hit.fetch_add(1, Ordering::SeqCst);
                return Err(std::io::Error::other("injected I/O fault"));
            }
        }
        // The trace is only as good as the hooks: a file the events say exists but the real
        // directory no longer has was removed behind the hook's back. It enters the trace as an
        // unlink at this point, so that the crash images show what a crash here would leave.
        if let Some(dir) = ev.path.parent() {
            let mut names = self.names.lock().unwrap();
            let gone: Vec<String> = names.iter().filter(|n| !dir.join(n).exists()).cloned().collect();
            for name in gone {
                names.remove(&name);
                self.unhooked_unlinks.fetch_add(1, Ordering::SeqCst);
                self.events.lock().unwrap().push(Ev {
                    file: name,
                    kind: EvKind::Unlink,
                    op: self.op.load(Ordering::SeqCst),
                    acked: self.acked.load(Ordering::SeqCst),
                    started: self.started.load(Ordering::SeqCst),
                });
            }
            let this = fname(ev.path);
            match ev.kind {
                IoKind::Create | IoKind::Write | IoKind::SetLen => {
                    // (the hook runs before the operation: the file is there afterwards)
                    names.insert(this);
                }
                IoKind::Rename => {
                    names.remove(&this);
                    if let Some(to) = ev.to {
                        names.insert(fname(to));
                    }
                }
                IoKind::Unlink => {
                    names.remove(&this);
                }
                IoKind::Sync => {}
            }
        }
        let kind = match ev.kind {
            IoKind::Write => EvKind::Write { off: ev.offset, data: if self.keep_data { ev.data.to_vec() } else { Vec::new() } },
            IoKind::SetLen => EvKind::SetLen { len: ev.offset },
            IoKind::Sync => EvKind::Sync,
            IoKind::Create => EvKind::Create,
            IoKind::Rename => EvKind::Rename { to: ev.to.map(fname).unwrap_or_default() },
            IoKind::Unlink => EvKind::Unlink,
        };
        self.events.lock().unwrap().push(Ev {
            file: fname(ev.path),
            kind,
            op: self.op.load(Ordering::SeqCst),
            acked: self.acked.load(Ordering::SeqCst),
            started: self.started.load(Ordering::SeqCst),
        });
        Ok(())
    }
}

/// In-memory directory image.
#[derive(Debug, Clone, Default, PartialEq)]
pub struct Image {
    pub files: BTreeMap<String, Vec<u8>>,
}

fn apply_data(files: &mut BTreeMap<String, Vec<u8>>, file: &str, kind: &EvKind) {
    match kind {
        EvKind::Write { off, data } => {
            let f = files.entry(file.to_string()).or_default();
            let end = *off as usize + data.len();
            if f.len() < end {
                f.resize(end, 0);
            }
            f[*off as usize..end].copy_from_slice(data);
        }
        EvKind::SetLen { len } => {
            files.entry(file.to_string()).or_default().resize(*len as usize, 0);
        }
        EvKind::Create => {
            files.entry(file.to_string()).or_default();
        }
        EvKind::Rename { to } => {
            if let Some(v) = files.remove(file) {
                files.insert(to.clone(), v);
            }
        }
        EvKind::Unlink => {
            files.remove(file);
        }
        EvKind::Sync => {}
    }
}

impl Image {
    pub fn apply(&mut self, ev: &Ev) {
        apply_data(&mut self.files, &ev.file, &ev.kind);
    }
    pub fn write_to(&self, dir: &Path) -> std::io::Result<()> {
        std::fs::create_dir_all(dir)?;
        for (name, data) in &self.files {
            std::fs::write(dir.join(name), data)?;
        }
        Ok(())
    }
    pub fn read_from(dir: &Path) -> std::io::Result<Image> {
        let mut img = Image::default();
        for e in std::fs::read_dir(dir)? {
            let e = e?;
            if e.file_type()?.is_file() {
                img.files.insert(e.file_name().to_string_lossy().into_owned(), std::fs::read(e.path())?);
            }
        }
        Ok(img)
    }
}

/// Incremental builder of both crash models over one trace.
///
/// Process death: every event before the crash point is in the files.
/// Power loss: per file, only what was written before that file's last `Sync` is certain;
/// later writes/resizes are `pending` and an arbitrary subset of them may have reached the
/// disk. Namespace operations (create, rename, unlink) are taken as durable in issue order
/// (journalled metadata, "ext4 ordered" model) -- recorded as an assumption in evidence.
#[derive(Debug, Clone, Default)]
pub struct CrashState {
    pub live: Image,
    pub durable: Image,
    /// per file: data events issued after its last sync
    pub pending: BTreeMap<String, Vec<EvKind>>,
}

impl CrashState {
    pub fn from_image(img: &Image) -> Self {
        CrashState { live: img.clone(), durable: img.clone(), pending: BTreeMap::new() }
    }

    pub fn advance(&mut self, ev: &Ev) {
        self.live.apply(ev);
        match &ev.kind {
            EvKind::Write { .. } | EvKind::SetLen { .. } => {
                self.pending.entry(ev.file.clone()).or_default().push(ev.kind.clone());
            }
            EvKind::Sync => {
                if let Some(p) = self.pending.remove(&ev.file) {
                    for k in &p {
                        apply_data(&mut self.durable.files, &ev.file, k);
                    }
                }
            }
            EvKind::Create => {
                self.durable.files.entry(ev.file.clone()).or_default();
            }
            EvKind::Rename { to } => {
                if let Some(v) = self.durable.files.remove(&ev.file) {
                    self.durable.files.insert(to.clone(), v);
                }
                if let Some(p) = self.pending.remove(&ev.file) {
                    self.pending.insert(to.clone(), p);
                }
            }
            EvKind::Unlink => {
                self.durable.files.remove(&ev.file);
                self.pending.remove(&ev.file);
            }
        }
    }

    pub fn pending_count(&self) -> usize {
        self.pending.values().map(|v| v.len()).sum()
    }

    /// Power-loss image keeping the pending data events selected by `keep(i)` (i counts
    /// pending events in file-name order, then issue order).
    pub fn power_loss(&self, mut keep: impl FnMut(usize) -> bool) -> Image {
        let mut img = self.durable.clone();
        let mut i = 0;
        for (file, evs) in &self.pending {
            for k in evs {
                if keep(i) {
                    apply_data(&mut img.files, file, k);
                }
                i += 1;
            }
        }
        img
    }

    /// Power-loss image where `prefix_file`'s pending events persist as a prefix of
    /// `prefix_len` events (a device that does not reorder writes within that file) and
    /// every other file's pending events are selected by `keep`.
    pub fn power_loss_mixed(&self, prefix_file: &str, prefix_len: usize, mut keep: impl FnMut(usize) -> bool) -> Image {
        let mut img = self.durable.clone();
        let mut i = 0;
        for (file, evs) in &self.pending {
            for (n, k) in evs.iter().enumerate() {
                let take = if file == prefix_file { n < prefix_len } else { keep(i) };
                if take {
                    apply_data(&mut img.files, file, k);
                }
                i += 1;
            }
        }
        img
    }

    pub fn pending_of(&self, file: &str) -> usize {
        self.pending.get(file).map(|v| v.len()).unwrap_or(0)
    }

    /// Process-death image with a torn prefix of `ev` (a `Write`) applied on top.
    pub fn torn(&self, ev: &Ev, prefix: usize) -> Image {
        let mut img = self.live.clone();
        if let EvKind::Write { off, data } = &ev.kind {
            let p = prefix.min(data.len());
            apply_data(&mut img.files, &ev.file, &EvKind::Write { off: *off, data: data[..p].to_vec() });
        }
        img
    }
}

/// Torn-write prefixes worth trying for a write of `len` bytes (strictly inside).
pub fn torn_prefixes(len: usize) -> Vec<usize> {
    let mut v = Vec::new();
    if len <= 1 {
        return v;
    }
    if len <= 16 {
        v.extend(1..len);
    } else if len >= 4096 {
        // sector-granular tearing of a page write
        for s in [512usize, 2048, 4096, len - 512] {
            if s < len {
                v.push(s);
            }
        }
    } else {
        v.extend([1, len / 2, len - 1]);
    }
    v.sort();
    v.dedup();
    v
}
