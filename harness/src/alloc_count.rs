//! Counting global allocator. Disabled (one relaxed load per call) unless a child worker
//! switches it on around the code under measurement (C25: decoder allocation bound).
use std::alloc::{GlobalAlloc, Layout, System};
use std::sync::atomic::{AtomicBool, AtomicIsize, Ordering};

pub struct Counting;

static ENABLED: AtomicBool = AtomicBool::new(false);
static CUR: AtomicIsize = AtomicIsize::new(0);
static PEAK: AtomicIsize = AtomicIsize::new(0);
/// largest single request seen while enabled (recorded *before* the request is served, so
/// that it can be reported through `largest_request()` from an alloc-error hook or a log)
static LARGEST: AtomicIsize = AtomicIsize::new(0);

#[inline]
fn add(n: usize) {
    let n = n as isize;
    let cur = CUR.fetch_add(n, Ordering::Relaxed) + n;
    PEAK.fetch_max(cur, Ordering::Relaxed);
    LARGEST.fetch_max(n, Ordering::Relaxed);
    if n as usize >= OVERSIZE {
        // announce on stdout (no allocation, no locks): if serving this request kills the
        // process the parent still learns why
        let mut buf = [0u8; 40];
        let mut i = buf.len();
        buf[i - 1] = b'\n';
        i -= 1;
        let mut v = n as usize;
        loop {
            i -= 1;
            buf[i] = b'0' + (v % 10) as u8;
            v /= 10;
            if v == 0 {
                break;
            }
        }
        let tag = b"OVERSIZE ";
        i -= tag.len();
        buf[i..i + tag.len()].copy_from_slice(tag);
        unsafe {
            libc::write(1, buf[i..].as_ptr() as *const libc::c_void, buf.len() - i);
        }
    }
}

/// single requests of at least this many bytes are announced on stdout while measuring
pub const OVERSIZE: usize = 256 << 20;

unsafe impl GlobalAlloc for Counting {
    unsafe fn alloc(&self, l: Layout) -> *mut u8 {
        if ENABLED.load(Ordering::Relaxed) {
            add(l.size());
        }
        unsafe { System.alloc(l) }
    }
    unsafe fn alloc_zeroed(&self, l: Layout) -> *mut u8 {
        if ENABLED.load(Ordering::Relaxed) {
            add(l.size());
        }
        unsafe { System.alloc_zeroed(l) }
    }
    unsafe fn dealloc(&self, p: *mut u8, l: Layout) {
        if ENABLED.load(Ordering::Relaxed) {
            CUR.fetch_sub(l.size() as isize, Ordering::Relaxed);
        }
        unsafe { System.dealloc(p, l) }
    }
    unsafe fn realloc(&self, p: *mut u8, l: Layout, new_size: usize) -> *mut u8 {
        if ENABLED.load(Ordering::Relaxed) {
            // worst case of a moving realloc: old and new block live at the same time
            add(new_size);
            CUR.fetch_sub(l.size() as isize, Ordering::Relaxed);
        }
        unsafe { System.realloc(p, l, new_size) }
    }
}

#[global_allocator]
static GLOBAL: Counting = Counting;

/// Start measuring from zero.
pub fn start() {
    CUR.store(0, Ordering::Relaxed);
    PEAK.store(0, Ordering::Relaxed);
    LARGEST.store(0, Ordering::Relaxed);
    ENABLED.store(true, Ordering::SeqCst);
}

/// Stop measuring; returns (peak live bytes since `start`, largest single request).
pub fn stop() -> (usize, usize) {
    ENABLED.store(false, Ordering::SeqCst);
    (PEAK.load(Ordering::Relaxed).max(0) as usize, LARGEST.load(Ordering::Relaxed).max(0) as usize)
}
