#!/bin/sh
# usage: run.sh <ID> [quick|thorough]   -- rebuilds the harness against /repo's working tree, then runs one check
ID="$1"; TIER="${2:-${VERIF_TIER:-quick}}"
cd /verif/harness || exit 2
export CARGO_NET_OFFLINE=true
if ! cargo build --release -q 2>/verif/harness/target/build-$ID.log; then
  echo "BUILD-FAILED (see /verif/harness/target/build-$ID.log)"; tail -n 30 /verif/harness/target/build-$ID.log
  exit 2
fi
if [ "$ID" = "C16" ]; then
  # C16 also runs its deep shapes in an unoptimised build of the worker
  cargo build -q 2>>/verif/harness/target/build-$ID.log || echo "note: debug worker build failed (C16 runs without its debug-build section)"
fi
exec ./target/release/check "$ID" --tier "$TIER"
